"""E0 -- lowering: source-level rewrites applied to the parsed package *before* any rule looks at it.

The rules of this checker were written against the functions of the pinned tree (their names are frozen in sa/pinned_defs.json) and
against the idioms that tree uses.  A maintainer who extracts a helper (`self._past_window(...)`, `addTimedOperator(node, Op, ...)`) or
replaces an if/elif chain on the comparison operator by a table of lambdas has not changed what the code computes; the rules would
nevertheless lose sight of it.  Two meaning-preserving rewrites bring such code back into the forms the engines interpret:

  L1  helper inlining -- a call of a function that the pinned tree does not have (a *new* helper: its name is not in pinned_defs and it is
      defined exactly once in the package, so no dynamic dispatch can select another body) is replaced by the helper's body, parameters
      bound to the arguments, locals renamed apart.  Only calls in statement position (`h(..)`, `x = h(..)`, `return h(..)`), calls of
      expression-bodied helpers anywhere, and `for v in g(..)` over a loop-free generator are inlined; everything else is left as it is.
  L2  dispatch tables -- `T[key](args)` / `T.get(key)(args)` / `f = T.get(key) ... f(args)` over a module- or class-level dict whose values
      are lambdas or operator-module functions becomes the if/elif chain `if key == K1: v = body1 elif ...`.

Both are the identity on the pinned tree (checked by tools/check_lowering_identity.py), so they cannot change a verdict on it.  Nothing
is executed; a construct the rewrites do not understand is left untouched (the rules then judge it as before)."""
import ast
import copy
import json
import os

_HERE = os.path.dirname(os.path.abspath(__file__))


def pinned_defs():
    with open(os.path.join(_HERE, 'pinned_defs.json')) as fh:
        return set(json.load(fh))


# ====================================================================================================== helpers
def _strip_doc(body):
    if body and isinstance(body[0], ast.Expr) and isinstance(body[0].value, ast.Constant) and isinstance(body[0].value.value, str):
        return body[1:]
    return body


def _stores(fn):
    """names bound inside the function body (assignments, loop targets, with/except names, comprehension targets, walrus)"""
    out = set()
    for n in ast.walk(fn):
        if isinstance(n, ast.Name) and isinstance(n.ctx, (ast.Store, ast.Del)):
            out.add(n.id)
        elif isinstance(n, ast.ExceptHandler) and n.name:
            out.add(n.name)
    return out


def _has(fn, kinds, skip_nested=True):
    for st in fn.body:
        for n in ast.walk(st):
            if isinstance(n, kinds):
                return True
    return False


def _tail_returns_only(body):
    """every `return` of the block is in tail position (nothing of the function runs after it)"""
    for i, st in enumerate(body):
        last = i == len(body) - 1
        if isinstance(st, ast.Return):
            if not last:
                return False
            continue
        has_ret = any(isinstance(n, ast.Return) for n in ast.walk(st))
        if not has_ret:
            continue
        if not last:
            return False
        if isinstance(st, ast.If):
            if not (_tail_returns_only(st.body) and _tail_returns_only(st.orelse)):
                return False
        else:
            return False        # a return inside a loop / try / with: not a tail position
    return True


def _always_returns(body):
    if not body:
        return False
    st = body[-1]
    if isinstance(st, (ast.Return, ast.Raise)):
        return True
    if isinstance(st, ast.If):
        return _always_returns(st.body) and _always_returns(st.orelse)
    return False


class _Subst(ast.NodeTransformer):
    """rename locals, substitute parameters"""

    def __init__(self, rename, subst):
        self.rename = rename
        self.subst = subst

    def visit_Name(self, n):
        if n.id in self.subst and isinstance(n.ctx, ast.Load):
            return ast.copy_location(copy.deepcopy(self.subst[n.id]), n)
        if n.id in self.rename:
            return ast.copy_location(ast.Name(id=self.rename[n.id], ctx=n.ctx), n)
        return n

    def visit_ExceptHandler(self, n):
        self.generic_visit(n)
        if n.name and n.name in self.rename:
            n.name = self.rename[n.name]
        return n

    def visit_arg(self, n):
        return n


def _atomic(e, deep=True):
    """an access path: evaluating it twice (or later) gives the same object as evaluating it once, as long as nothing in between rebinds it"""
    if isinstance(e, (ast.Name, ast.Constant)):
        return True
    if isinstance(e, ast.Attribute):
        return _atomic(e.value)
    if isinstance(e, ast.Subscript) and not isinstance(e.slice, ast.Slice):
        return deep and _atomic(e.value) and _atomic(e.slice)
    if isinstance(e, ast.UnaryOp) and isinstance(e.op, ast.USub) and isinstance(e.operand, ast.Constant):
        return True
    if isinstance(e, ast.Lambda):
        return True
    return False


class Helper(object):
    def __init__(self, node, modname, clsname):
        self.node = node
        self.modname = modname
        self.clsname = clsname
        decos = [ast.unparse(d) for d in node.decorator_list]
        self.static = 'staticmethod' in decos
        self.classmethod = 'classmethod' in decos
        self.ok = not [d for d in decos if d not in ('staticmethod',)]
        a = node.args
        self.params = [x.arg for x in a.posonlyargs + a.args]
        self.is_method = clsname is not None and not self.static
        self.vararg = a.vararg.arg if a.vararg else None
        self.kwarg = a.kwarg.arg if a.kwarg else None
        self.kwonly = [x.arg for x in a.kwonlyargs]
        self.body = _strip_doc(list(node.body))
        self.generator = any(isinstance(n, (ast.Yield, ast.YieldFrom)) for st in self.body for n in ast.walk(st))
        bad = (ast.Global, ast.Nonlocal, ast.Await, ast.AsyncFor, ast.AsyncWith, ast.FunctionDef, ast.AsyncFunctionDef, ast.ClassDef, ast.YieldFrom)
        if any(isinstance(n, bad) for st in self.body for n in ast.walk(st)):
            self.ok = False
        if any(isinstance(n, ast.Call) and isinstance(n.func, ast.Name) and n.func.id in ('locals', 'vars', 'globals', 'eval', 'exec', 'super') for st in self.body for n in ast.walk(st)):
            self.ok = False
        self.expr_body = self.body[0].value if (len(self.body) == 1 and isinstance(self.body[0], ast.Return) and self.body[0].value is not None) else None

    def defaults(self):
        a = self.node.args
        pos = a.posonlyargs + a.args
        d = {}
        for p, v in zip(pos[len(pos) - len(a.defaults):], a.defaults):
            d[p.arg] = v
        for p, v in zip(a.kwonlyargs, a.kw_defaults):
            if v is not None:
                d[p.arg] = v
        return d


class Inliner(object):
    def __init__(self, helpers):
        self.helpers = helpers        # name -> Helper
        self.counter = [0]
        self.count = 0

    # ------------------------------------------------------------------ which helper does a call denote?
    def callee(self, call, in_class):
        f = call.func
        if isinstance(f, ast.Name):
            h = self.helpers.get(f.id)
            if h is not None and h.clsname is None:
                return h, None
            return None, None
        if isinstance(f, ast.Attribute):
            h = self.helpers.get(f.attr)
            if h is None:
                return None, None
            if h.clsname is None:
                # module.function(...)
                if isinstance(f.value, ast.Name) and f.value.id != 'self':
                    return h, None
                return None, None
            if isinstance(f.value, ast.Name) and f.value.id in ('self', 'cls'):
                return h, (None if h.static else f.value)
            if h.static and isinstance(f.value, ast.Name):
                return h, None
            if isinstance(f.value, ast.Name) and f.value.id == h.clsname and not h.static and call.args:
                return h, 'explicit'
        return None, None

    # ------------------------------------------------------------------ bind parameters
    def bind(self, h, call, recv):
        """-> (pre statements, rename map, substitution map) or None"""
        args = list(call.args)
        kws = list(call.keywords)
        params = list(h.params)
        subst = {}
        if h.is_method:
            if recv == 'explicit':
                subst[params[0]] = args[0]
                args = args[1:]
            elif recv is not None:
                subst[params[0]] = recv
            else:
                return None
            params = params[1:]
        self.counter[0] += 1
        tag = '__%s%d' % (h.node.name.strip('_')[:12], self.counter[0])
        locals_ = _stores(h.node)
        rename = {n: n + tag for n in locals_}
        pre = []
        star = [a for a in args if isinstance(a, ast.Starred)]
        dstar = [k for k in kws if k.arg is None]
        plain = [a for a in args if not isinstance(a, ast.Starred)]
        if star:
            # only the pass-through idiom  h(x, y, *args, **kwargs)  into  def h(self, x, y, *args, **kwargs)
            if len(star) != 1 or args[-1] is not star[0] or h.vararg is None or not isinstance(star[0].value, ast.Name) or len(plain) != len(params):
                return None
            subst[h.vararg] = star[0].value
            rename.pop(h.vararg, None)
        elif h.vararg is not None:
            extra = plain[len(params):]
            plain = plain[:len(params)]
            subst[h.vararg] = ast.Tuple(elts=extra, ctx=ast.Load())
        if dstar:
            if len(dstar) != 1 or h.kwarg is None or not isinstance(dstar[0].value, ast.Name):
                return None
            subst[h.kwarg] = dstar[0].value
            rename.pop(h.kwarg, None)
        elif h.kwarg is not None:
            unknown = [k for k in kws if k.arg is not None and k.arg not in params and k.arg not in h.kwonly]
            subst[h.kwarg] = ast.Dict(keys=[ast.Constant(value=k.arg) for k in unknown], values=[k.value for k in unknown])
            kws = [k for k in kws if k not in unknown]
        if len(plain) > len(params):
            return None
        given = dict(zip(params, plain))
        for k in kws:
            if k.arg is None:
                continue
            if k.arg in given or (k.arg not in params and k.arg not in h.kwonly):
                return None
            given[k.arg] = k.value
        dflt = h.defaults()
        for p in params + h.kwonly:
            if p not in given:
                if p not in dflt:
                    return None
                given[p] = dflt[p]
        for p, a in given.items():
            assigned = p in locals_
            if _atomic(a, deep=h.expr_body is not None) and not assigned:
                subst[p] = a
                rename.pop(p, None)
            else:
                tmp = p + tag
                rename[p] = tmp
                pre.append(ast.Assign(targets=[ast.Name(id=tmp, ctx=ast.Store())], value=a))
        for p in subst:
            rename.pop(p, None)
        return pre, rename, subst

    def body_of(self, h, call, recv, sink):
        """statements that stand for the call; sink(expr) -> statement receiving a returned value (None: value dropped).
        sink == 'return': returns stay returns."""
        b = self.bind(h, call, recv)
        if b is None:
            return None
        pre, rename, subst = b
        body = [copy.deepcopy(s) for s in h.body]
        tr = _Subst(rename, subst)
        body = [tr.visit(s) for s in body]
        has_value_return = any(isinstance(n, ast.Return) and n.value is not None for s in body for n in ast.walk(s))
        if sink == 'return':
            if not _always_returns(body):
                body = body + [ast.Return(value=ast.Constant(value=None))]
            return pre + body
        if not _tail_returns_only(body):
            return None
        if sink is not None and not _always_returns(body) and has_value_return:
            return None

        def conv(stmts):
            out = []
            for s in stmts:
                if isinstance(s, ast.Return):
                    if s.value is None:
                        if sink is not None:
                            out.append(sink(ast.Constant(value=None)))
                        continue
                    out.append(sink(s.value) if sink is not None else ast.Expr(value=s.value))
                elif isinstance(s, ast.If) and any(isinstance(n, ast.Return) for n in ast.walk(s)):
                    s.body = conv(s.body) or [ast.Pass()]
                    s.orelse = conv(s.orelse)
                    out.append(s)
                else:
                    out.append(s)
            return out
        if sink is not None and not has_value_return:
            return pre + conv(body) + [sink(ast.Constant(value=None))]
        return pre + conv(body)

    # ------------------------------------------------------------------ rewrite one block
    def block(self, stmts, in_class, self_name):
        out = []
        for st in stmts:
            rep = self.stmt(st, in_class, self_name)
            out.extend(rep)
        return out

    def stmt(self, st, in_class, self_name):
        # recurse into compound statements first
        for field in ('body', 'orelse', 'finalbody'):
            b = getattr(st, field, None)
            if isinstance(b, list) and b and isinstance(b[0], ast.stmt):
                setattr(st, field, self.block(b, in_class, self_name))
        for hnd in getattr(st, 'handlers', []) or []:
            hnd.body = self.block(hnd.body, in_class, self_name)
        # expression-bodied helpers anywhere in the statement's own expressions
        st = self.expr_calls(st, in_class)
        # a helper with a body of several statements called inside a larger expression: its result is computed in front of the statement, when nothing
        # else in the expression can observe the order (no other call, no comprehension, no lambda)
        hoisted = self.hoist_nested(st, in_class)
        if hoisted is not None:
            pre, st = hoisted
            out_pre = []
            for ps in pre:
                out_pre.extend(self.stmt(ps, in_class, self_name))
            return out_pre + self.stmt(st, in_class, self_name)
        call = None
        sink = None
        if isinstance(st, ast.Expr) and isinstance(st.value, ast.Call):
            call, sink = st.value, None
        elif isinstance(st, ast.Return) and isinstance(st.value, ast.Call):
            call, sink = st.value, 'return'
        elif isinstance(st, ast.Assign) and isinstance(st.value, ast.Call):
            call = st.value
            sink = lambda e, st=st: ast.Assign(targets=copy.deepcopy(st.targets), value=e)
        elif isinstance(st, ast.AugAssign) and isinstance(st.value, ast.Call):
            call = st.value
            sink = lambda e, st=st: ast.AugAssign(target=copy.deepcopy(st.target), op=st.op, value=e)
        elif isinstance(st, ast.For) and isinstance(st.iter, ast.Call):
            rep = self.gen_loop(st, in_class)
            if rep is not None:
                return rep
        if call is not None:
            h, recv = self.callee(call, in_class)
            if h is not None and h.ok and not h.generator and not self.recursive(h):
                new = self.body_of(h, call, recv, sink)
                if new is not None:
                    self.count += 1
                    for n in new:
                        ast.copy_location(n, st)
                        for sub in ast.walk(n):
                            if not hasattr(sub, 'lineno'):
                                ast.copy_location(sub, st)
                    for n in new:
                        ast.fix_missing_locations(n)
                    # the spliced body may itself call helpers
                    return self.block(new, in_class, self_name) if self.depth_ok() else new
        return [st]

    def hoist_nested(self, st, in_class):
        if not isinstance(st, (ast.Return, ast.Assign, ast.Expr, ast.AugAssign)) or getattr(st, 'value', None) is None:
            return None
        top = st.value
        if isinstance(top, (ast.Lambda, ast.ListComp, ast.SetComp, ast.DictComp, ast.GeneratorExp, ast.IfExp, ast.BoolOp)):
            return None              # the value itself is a loop / a conditional: what it calls runs per element, or not at all
        nested = []
        for n in ast.walk(top):
            if n is top:
                continue
            if isinstance(n, (ast.Lambda, ast.ListComp, ast.SetComp, ast.DictComp, ast.GeneratorExp, ast.IfExp, ast.BoolOp)):
                return None          # conditional evaluation: the call may not happen at all
            if isinstance(n, ast.Call):
                h, recv = self.callee(n, in_class)
                if h is None or not h.ok or h.generator or h.expr_body is not None or self.recursive(h):
                    return None      # another call whose order against the helper could matter
                nested.append(n)
        if not nested or isinstance(top, ast.Call) and self.callee(top, in_class)[0] is None and True is False:
            return None
        if isinstance(top, ast.Call) and self.callee(top, in_class)[0] is None:
            # the statement's own call is not a helper: the hoisted result may move in front of it only if everything else the call evaluates before calling
            # (its receiver, its other arguments) is an access path -- `acc.extend(helper(..))`, `out.append(helper(..))`
            others = [a for a in top.args if not any(a is n_ for n_ in nested)] + [k.value for k in top.keywords if not any(k.value is n_ for n_ in nested)]
            fn_ok = isinstance(top.func, ast.Name) or (isinstance(top.func, ast.Attribute) and _atomic(top.func.value, deep=False))
            if not (fn_ok and all(_atomic(a, deep=False) for a in others) and all(any(a is n_ for a in list(top.args) + [k.value for k in top.keywords]) for n_ in nested)):
                return None
        pre = []
        mapping = {}
        for n in nested:
            self.counter[0] += 1
            tmp = '__hoisted%d' % self.counter[0]
            mapping[id(n)] = tmp
            a = ast.Assign(targets=[ast.Name(id=tmp, ctx=ast.Store())], value=n)
            ast.copy_location(a, st)
            ast.fix_missing_locations(a)
            pre.append(a)

        class R(ast.NodeTransformer):
            def visit_Call(self, n):
                if id(n) in mapping:
                    return ast.copy_location(ast.Name(id=mapping[id(n)], ctx=ast.Load()), n)
                self.generic_visit(n)
                return n
        st.value = R().visit(top)
        return pre, st

    _depth = 0

    def depth_ok(self):
        return self.counter[0] < 4000

    def recursive(self, h):
        return any(isinstance(n, ast.Call) and ((isinstance(n.func, ast.Name) and n.func.id == h.node.name) or (isinstance(n.func, ast.Attribute) and n.func.attr == h.node.name))
                   for s in h.body for n in ast.walk(s))

    def expr_calls(self, st, in_class):
        me = self

        class T(ast.NodeTransformer):
            def visit_Call(self, n):
                self.generic_visit(n)
                h, recv = me.callee(n, in_class)
                if h is None or not h.ok or h.expr_body is None or me.recursive(h):
                    return n
                b = me.bind(h, n, recv)
                if b is None:
                    return n
                pre, rename, subst = b
                if pre:
                    return n          # an argument that needs a temporary: only in statement position
                me.count += 1
                e = _Subst(rename, subst).visit(copy.deepcopy(h.expr_body))
                return ast.copy_location(e, n)

            # do not descend into nested statement blocks: they are handled by stmt()
            def visit_FunctionDef(self, n):
                return n

            def visit_Lambda(self, n):
                return n

        # only the statement's own expressions (not nested blocks)
        for field, val in ast.iter_fields(st):
            if field in ('body', 'orelse', 'finalbody', 'handlers'):
                continue
            if isinstance(val, ast.AST):
                if isinstance(st, (ast.Expr, ast.Return, ast.Assign, ast.AugAssign)) and field == 'value' and isinstance(val, ast.Call):
                    # the top call is handled in statement position; its arguments here
                    val.args = [T().visit(a) for a in val.args]
                    for k in val.keywords:
                        k.value = T().visit(k.value)
                    h, _ = self.callee(val, in_class)
                    if h is not None and h.ok and h.expr_body is not None and not isinstance(st, ast.Return):
                        setattr(st, field, T().visit(val))
                    continue
                setattr(st, field, T().visit(val))
            elif isinstance(val, list):
                setattr(st, field, [T().visit(v) if isinstance(v, ast.AST) else v for v in val])
        return st

    def unroll_literal_loops(self, stmts):
        """for x in (c1, c2, ...): BODY   with literal constants  ->  BODY[x := c1]; BODY[x := c2]; ...   (top-level statements of a generator helper)"""
        out = []
        for s_ in stmts:
            if isinstance(s_, ast.For) and isinstance(s_.target, ast.Name) and isinstance(s_.iter, (ast.Tuple, ast.List)) and s_.iter.elts and not s_.orelse \
                    and all(isinstance(e, ast.Constant) for e in s_.iter.elts) and len(s_.iter.elts) <= 8 \
                    and not any(isinstance(n, (ast.Break, ast.Continue)) for b in s_.body for n in ast.walk(b)) \
                    and not any(isinstance(n, ast.Name) and n.id == s_.target.id and isinstance(n.ctx, ast.Store) for b in s_.body for n in ast.walk(b)):
                for e in s_.iter.elts:
                    for b in s_.body:
                        out.append(_Subst({}, {s_.target.id: e}).visit(copy.deepcopy(b)))
            else:
                out.append(s_)
        return out

    def gen_loop(self, st, in_class):
        """for v in g(..): BODY   with  def g(..): [if c:] yield e ...   ->   [if c:] v = e; BODY   per yield, in order"""
        h, recv = self.callee(st.iter, in_class)
        if h is None or not h.ok or not h.generator or st.orelse or self.recursive(h):
            return None
        if any(isinstance(n, (ast.Break, ast.Continue, ast.Return)) for s in st.body for n in ast.walk(s)):
            return None
        hbody = self.unroll_literal_loops(h.body)
        if hbody is None or any(isinstance(n, (ast.For, ast.While, ast.Return, ast.Try, ast.With)) for s in hbody for n in ast.walk(s)):
            return None
        b = self.bind(h, st.iter, recv)
        if b is None:
            return None
        pre, rename, subst = b
        body = [_Subst(rename, subst).visit(copy.deepcopy(s)) for s in hbody]

        def conv(stmts):
            out = []
            for s in stmts:
                if isinstance(s, ast.Expr) and isinstance(s.value, ast.Yield):
                    out.append(ast.Assign(targets=[copy.deepcopy(st.target)], value=s.value.value if s.value.value is not None else ast.Constant(value=None)))
                    out.extend(copy.deepcopy(st.body))
                elif isinstance(s, ast.If):
                    s.body = conv(s.body) or [ast.Pass()]
                    s.orelse = conv(s.orelse)
                    out.append(s)
                elif any(isinstance(n, ast.Yield) for n in ast.walk(s)):
                    raise ValueError('yield in expression position')
                else:
                    out.append(s)
            return out
        try:
            new = pre + conv(body)
        except ValueError:
            return None
        self.count += 1
        for n in new:
            ast.copy_location(n, st)
            for sub in ast.walk(n):
                if not hasattr(sub, 'lineno'):
                    ast.copy_location(sub, st)
            ast.fix_missing_locations(n)
        return new


# ====================================================================================================== L2 dispatch tables
_OPFN = {'ge': ast.GtE, 'gt': ast.Gt, 'le': ast.LtE, 'lt': ast.Lt, 'eq': ast.Eq, 'ne': ast.NotEq}
_BINFN = {'sub': ast.Sub, 'add': ast.Add, 'mul': ast.Mult, 'truediv': ast.Div}


def _apply_value(v, args):
    """the expression `v(*args)` written out, for a lambda or an operator-module function; None if it cannot be written out"""
    if isinstance(v, ast.Lambda):
        a = v.args
        if a.vararg or a.kwarg or a.kwonlyargs or a.defaults or len(a.args) != len(args):
            return None
        subst = {p.arg: x for p, x in zip(a.args, args)}
        return _Subst({}, subst).visit(copy.deepcopy(v.body))
    name = None
    if isinstance(v, ast.Attribute) and isinstance(v.value, ast.Name) and v.value.id in ('operator', 'op', '_operator'):
        name = v.attr
    if name in _OPFN and len(args) == 2:
        return ast.Compare(left=args[0], ops=[_OPFN[name]()], comparators=[args[1]])
    if name in _BINFN and len(args) == 2:
        return ast.BinOp(left=args[0], op=_BINFN[name](), right=args[1])
    if name == 'neg' and len(args) == 1:
        return ast.UnaryOp(op=ast.USub(), operand=args[0])
    if isinstance(v, (ast.Name, ast.Attribute)):
        return ast.Call(func=copy.deepcopy(v), args=list(args), keywords=[])
    return None


def _tables_of(body):
    """name -> Dict node, for `NAME = {k: callable, ...}` statements of a module or class body"""
    out = {}
    for st in body:
        if isinstance(st, ast.Assign) and len(st.targets) == 1 and isinstance(st.targets[0], ast.Name) and isinstance(st.value, ast.Dict) and st.value.keys \
                and all(k is not None for k in st.value.keys) \
                and all(isinstance(v, ast.Lambda) or (isinstance(v, ast.Attribute) and isinstance(v.value, ast.Name) and v.value.id in ('operator', 'op')) for v in st.value.values):
            out[st.targets[0].id] = st.value
    return out


class Dispatch(object):
    def __init__(self, module_tables, class_tables):
        self.mt = module_tables
        self.ct = class_tables
        self.count = 0
        self.n = [0]

    def table(self, e):
        if isinstance(e, ast.Name):
            return self.mt.get(e.id)
        if isinstance(e, ast.Attribute) and (ast.unparse(e.value) in ('self', 'cls', 'type(self)', 'self.__class__') or isinstance(e.value, ast.Name)):
            return self.ct.get(e.attr) or (self.mt.get(e.attr) if isinstance(e.value, ast.Name) and e.value.id not in ('self', 'cls') else None)
        return None

    def lookup(self, e):
        """T[key] | T.get(key) | T.get(key, default)  ->  (table, key expr, default expr or None, kind)"""
        if isinstance(e, ast.Subscript) and not isinstance(e.slice, ast.Slice):
            t = self.table(e.value)
            if t is not None:
                return t, e.slice, None, 'index'
        if isinstance(e, ast.Call) and isinstance(e.func, ast.Attribute) and e.func.attr == 'get' and len(e.args) in (1, 2) and not e.keywords:
            t = self.table(e.func.value)
            if t is not None:
                return t, e.args[0], (e.args[1] if len(e.args) == 2 else None), 'get'
        return None

    def chain(self, t, key, default, kind, args, target, miss_body):
        """if key == K1: target = body1 ... else: miss"""
        arms = []
        for k, v in zip(t.keys, t.values):
            val = _apply_value(v, [copy.deepcopy(a) for a in args])
            if val is None:
                return None
            arms.append((ast.Compare(left=copy.deepcopy(key), ops=[ast.Eq()], comparators=[copy.deepcopy(k)]), [ast.Assign(targets=[ast.Name(id=target, ctx=ast.Store())], value=val)]))
        if miss_body is not None:
            tail = miss_body
        elif default is not None and not (isinstance(default, ast.Constant) and default.value is None):
            val = _apply_value(default, [copy.deepcopy(a) for a in args])
            if val is None:
                return None
            tail = [ast.Assign(targets=[ast.Name(id=target, ctx=ast.Store())], value=val)]
        else:
            exc = 'KeyError' if kind == 'index' else 'TypeError'
            tail = [ast.Raise(exc=ast.Call(func=ast.Name(id=exc, ctx=ast.Load()), args=[], keywords=[]), cause=None)]
        node = None
        for test, body in reversed(arms):
            node = ast.If(test=test, body=body, orelse=tail if node is None else [node])
        return node

    def function(self, fn):
        # locals bound once to a table lookup:  f = T.get(key)
        bound = {}
        assigned = {}
        for n in ast.walk(fn):
            if isinstance(n, ast.Name) and isinstance(n.ctx, ast.Store):
                assigned[n.id] = assigned.get(n.id, 0) + 1
        for n in ast.walk(fn):
            if isinstance(n, ast.Assign) and len(n.targets) == 1 and isinstance(n.targets[0], ast.Name) and assigned.get(n.targets[0].id) == 1:
                lk = self.lookup(n.value)
                if lk is not None:
                    bound[n.targets[0].id] = (lk, n)
        fn.body = self.block(fn.body, bound)

    def miss_guard(self, st, bound):
        """`if f is None: <body>` / `if not f:` / `if f is None or ..`  ->  (name, body)"""
        if isinstance(st, ast.If) and not st.orelse:
            t = st.test
            if isinstance(t, ast.Compare) and len(t.ops) == 1 and isinstance(t.ops[0], ast.Is) and isinstance(t.left, ast.Name) and t.left.id in bound \
                    and isinstance(t.comparators[0], ast.Constant) and t.comparators[0].value is None:
                return t.left.id, st.body
            if isinstance(t, ast.UnaryOp) and isinstance(t.op, ast.Not) and isinstance(t.operand, ast.Name) and t.operand.id in bound:
                return t.operand.id, st.body
        return None

    def block(self, stmts, bound):
        out = []
        guards = {}
        for st in stmts:
            g = self.miss_guard(st, bound)
            if g is not None and all(isinstance(x, (ast.Raise, ast.Return)) for x in g[1][-1:]):
                guards[g[0]] = g[1]
                continue           # becomes the else-arm of the chain(s) below
            for field in ('body', 'orelse', 'finalbody'):
                b = getattr(st, field, None)
                if isinstance(b, list) and b and isinstance(b[0], ast.stmt):
                    inner = dict(bound)
                    setattr(st, field, self.block_with(b, inner, guards))
            if isinstance(st, ast.Assign) and len(st.targets) == 1 and isinstance(st.targets[0], ast.Name) and st.targets[0].id in bound and bound[st.targets[0].id][1] is st:
                continue           # the lookup itself disappears
            pre, st2 = self.simple(st, bound, guards)
            out.extend(pre)
            out.append(st2)
        return out

    def block_with(self, stmts, bound, guards):
        out = []
        g2 = dict(guards)
        for st in stmts:
            g = self.miss_guard(st, bound)
            if g is not None and all(isinstance(x, (ast.Raise, ast.Return)) for x in g[1][-1:]):
                g2[g[0]] = g[1]
                continue
            for field in ('body', 'orelse', 'finalbody'):
                b = getattr(st, field, None)
                if isinstance(b, list) and b and isinstance(b[0], ast.stmt):
                    setattr(st, field, self.block_with(b, bound, g2))
            if isinstance(st, ast.Assign) and len(st.targets) == 1 and isinstance(st.targets[0], ast.Name) and st.targets[0].id in bound and bound[st.targets[0].id][1] is st:
                continue
            pre, st2 = self.simple(st, bound, g2)
            out.extend(pre)
            out.append(st2)
        return out or [ast.Pass()]

    def simple(self, st, bound, guards):
        """replace dispatched calls in the statement's own expressions by temporaries computed by an if-chain placed in front"""
        if isinstance(st, (ast.For, ast.While, ast.If, ast.With, ast.Try, ast.FunctionDef, ast.ClassDef)):
            # only the header expressions of compound statements are the statement's own; keep them as they are (rare)
            return [], st
        pre = []
        me = self

        class T(ast.NodeTransformer):
            def visit_Call(self, n):
                self.generic_visit(n)
                if n.keywords or any(isinstance(a, ast.Starred) for a in n.args):
                    return n
                lk = None
                miss = None
                if isinstance(n.func, ast.Name) and n.func.id in bound:
                    lk = bound[n.func.id][0]
                    miss = guards.get(n.func.id)
                else:
                    lk = me.lookup(n.func)
                if lk is None:
                    return n
                t, key, default, kind = lk
                me.n[0] += 1
                tmp = '__dispatch%d' % me.n[0]
                ch = me.chain(t, key, default, kind, n.args, tmp, copy.deepcopy(miss) if miss is not None else None)
                if ch is None:
                    return n
                me.count += 1
                pre.append(ch)
                return ast.copy_location(ast.Name(id=tmp, ctx=ast.Load()), n)

            def visit_Lambda(self, n):
                return n

            def visit_ListComp(self, n):
                return n          # a call inside a comprehension cannot be hoisted in front of the statement

            visit_SetComp = visit_DictComp = visit_GeneratorExp = visit_ListComp

        st2 = T().visit(st)
        for p in pre:
            ast.copy_location(p, st)
            for sub in ast.walk(p):
                if not hasattr(sub, 'lineno'):
                    ast.copy_location(sub, st)
            ast.fix_missing_locations(p)
        # `a, b = __dispatchN` with every arm producing a pair: each arm assigns the components
        if len(pre) == 1 and isinstance(st2, ast.Assign) and len(st2.targets) == 1 and isinstance(st2.targets[0], ast.Tuple) and isinstance(st2.value, ast.Name) \
                and st2.value.id.startswith('__dispatch') and all(isinstance(t, ast.Name) for t in st2.targets[0].elts):
            tmp = st2.value.id
            arms = [n for n in ast.walk(pre[0]) if isinstance(n, ast.Assign) and isinstance(n.targets[0], ast.Name) and n.targets[0].id == tmp]
            k = len(st2.targets[0].elts)
            if arms and all(isinstance(a.value, ast.Tuple) and len(a.value.elts) == k for a in arms):
                def split(stmts):
                    out = []
                    for x in stmts:
                        if isinstance(x, ast.If):
                            x.body = split(x.body)
                            x.orelse = split(x.orelse)
                            out.append(x)
                        elif x in arms:
                            for t, v in zip(st2.targets[0].elts, x.value.elts):
                                out.append(ast.copy_location(ast.Assign(targets=[ast.Name(id=t.id, ctx=ast.Store())], value=v), st))
                        else:
                            out.append(x)
                    return out
                new = split([pre[0]])
                for x in new:
                    ast.fix_missing_locations(x)
                return new[:-1], new[-1]
        # `v = __dispatchN` directly after the chain: fold the temporary into the chain's target
        if len(pre) == 1 and isinstance(st2, ast.Assign) and len(st2.targets) == 1 and isinstance(st2.targets[0], ast.Name) and isinstance(st2.value, ast.Name) \
                and st2.value.id.startswith('__dispatch'):
            tmp = st2.value.id
            for n in ast.walk(pre[0]):
                if isinstance(n, ast.Name) and n.id == tmp:
                    n.id = st2.targets[0].id
            return [], pre[0]
        return pre, st2



# ====================================================================================================== L3 / L4 small statement forms
def split_tuple_assign(fn):
    """a, b = (e1, e2)  ->  a = e1; b = e2   when no target is read by any of the values (so the order of evaluation does not matter)"""
    n = [0]

    def block(stmts):
        out = []
        for st in stmts:
            for field in ('body', 'orelse', 'finalbody'):
                b = getattr(st, field, None)
                if isinstance(b, list) and b and isinstance(b[0], ast.stmt):
                    setattr(st, field, block(b))
            for hnd in getattr(st, 'handlers', []) or []:
                hnd.body = block(hnd.body)
            if isinstance(st, ast.Assign) and len(st.targets) == 1 and isinstance(st.targets[0], ast.Tuple) and isinstance(st.value, ast.Tuple) \
                    and len(st.targets[0].elts) == len(st.value.elts) and all(isinstance(t, ast.Name) for t in st.targets[0].elts) \
                    and not any(isinstance(v, ast.Starred) for v in st.value.elts):
                tg = {t.id for t in st.targets[0].elts}
                reads = {x.id for v in st.value.elts for x in ast.walk(v) if isinstance(x, ast.Name)}
                if not (tg & reads):
                    for t, v in zip(st.targets[0].elts, st.value.elts):
                        a = ast.Assign(targets=[t], value=v)
                        ast.copy_location(a, st)
                        out.append(a)
                    n[0] += 1
                    continue
            out.append(st)
        return out
    fn.body = block(fn.body)
    return n[0]


def split_chained_assign(fn):
    """a = X[k] = e  ->  a = e; X[k] = a      (a name among the targets that no other target reads; e is evaluated once, as before).
    `i = j = 1` with a literal stays as it is: nothing is gained by splitting it."""
    n = [0]

    def block(stmts):
        out = []
        for st in stmts:
            for field in ('body', 'orelse', 'finalbody'):
                b = getattr(st, field, None)
                if isinstance(b, list) and b and isinstance(b[0], ast.stmt):
                    setattr(st, field, block(b))
            for hnd in getattr(st, 'handlers', []) or []:
                hnd.body = block(hnd.body)
            if isinstance(st, ast.Assign) and len(st.targets) > 1 and not isinstance(st.value, ast.Constant):
                names = [t for t in st.targets if isinstance(t, ast.Name)]
                others = [t for t in st.targets if not isinstance(t, ast.Name)]
                if names and all(isinstance(t, (ast.Subscript, ast.Attribute)) for t in others):
                    first = names[0]
                    read_elsewhere = any(isinstance(x, ast.Name) and x.id == first.id for t in others for x in ast.walk(t))
                    if not read_elsewhere:
                        a = ast.copy_location(ast.Assign(targets=[first], value=st.value), st)
                        out.append(a)
                        for t in st.targets:
                            if t is first:
                                continue
                            out.append(ast.copy_location(ast.Assign(targets=[t], value=ast.Name(id=first.id, ctx=ast.Load())), st))
                        n[0] += 1
                        continue
            out.append(st)
        return out
    fn.body = block(fn.body)
    return n[0]


def propagate_child_aliases(fn):
    """x = N.children[k]  (x bound once, N never rebound)  ->  every later read of x is N.children[k]"""
    stores = {}
    for n in ast.walk(fn):
        if isinstance(n, ast.Name) and isinstance(n.ctx, (ast.Store, ast.Del)):
            stores[n.id] = stores.get(n.id, 0) + 1
    params = {a.arg for a in fn.args.posonlyargs + fn.args.args + fn.args.kwonlyargs}
    aliases = {}
    for st in fn.body:           # top-level statements only: the binding dominates everything after it
        if isinstance(st, ast.Assign) and len(st.targets) == 1 and isinstance(st.targets[0], ast.Name) and stores.get(st.targets[0].id) == 1 \
                and isinstance(st.value, ast.Subscript) and isinstance(st.value.slice, ast.Constant) and isinstance(st.value.slice.value, int) \
                and isinstance(st.value.value, ast.Attribute) and st.value.value.attr == 'children' and isinstance(st.value.value.value, ast.Name) \
                and st.value.value.value.id in params and stores.get(st.value.value.value.id, 0) == 0:
            aliases[st.targets[0].id] = (st, st.value)
    if not aliases:
        return 0
    drop = {id(v[0]) for v in aliases.values()}
    fn.body = [st for st in fn.body if id(st) not in drop]
    sub = _Subst({}, {k: v[1] for k, v in aliases.items()})
    fn.body = [sub.visit(st) for st in fn.body]
    return len(aliases)

class _FoldConstants(ast.NodeTransformer):
    """what substituting a literal for a parameter leaves behind:  X if True else Y -> X;  `if False: A else: B` -> B;  not True -> False;
    True and c -> c;  False or c -> c"""
    count = 0

    @staticmethod
    def _b(e):
        return e.value if isinstance(e, ast.Constant) and isinstance(e.value, bool) else None

    def visit_UnaryOp(self, n):
        self.generic_visit(n)
        if isinstance(n.op, ast.Not) and self._b(n.operand) is not None:
            _FoldConstants.count += 1
            return ast.copy_location(ast.Constant(value=not n.operand.value), n)
        return n

    def visit_BoolOp(self, n):
        self.generic_visit(n)
        vals = []
        for v in n.values:
            b = self._b(v)
            if b is None:
                vals.append(v)
            elif isinstance(n.op, ast.And) and b is False:
                if not vals:
                    _FoldConstants.count += 1
                    return ast.copy_location(ast.Constant(value=False), n)
                vals.append(v)
                break
            elif isinstance(n.op, ast.Or) and b is True:
                if not vals:
                    _FoldConstants.count += 1
                    return ast.copy_location(ast.Constant(value=True), n)
                vals.append(v)
                break
            else:
                _FoldConstants.count += 1      # neutral element: dropped
        if not vals:
            return ast.copy_location(ast.Constant(value=isinstance(n.op, ast.And)), n)
        if len(vals) == 1:
            return vals[0]
        n.values = vals
        return n

    def visit_IfExp(self, n):
        self.generic_visit(n)
        b = self._b(n.test)
        if b is not None:
            _FoldConstants.count += 1
            return n.body if b else n.orelse
        return n

    def _block(self, stmts):
        out = []
        for st in stmts:
            st = self.visit(st)
            if isinstance(st, ast.If) and self._b(st.test) is not None:
                _FoldConstants.count += 1
                out.extend(st.body if st.test.value else st.orelse)
            elif st is not None:
                out.append(st)
        return out

    def generic_visit(self, node):
        for fld in ('body', 'orelse', 'finalbody'):
            b = getattr(node, fld, None)
            if isinstance(b, list) and b and isinstance(b[0], ast.stmt):
                setattr(node, fld, self._block(b) or ([ast.Pass()] if fld == 'body' else []))
        for fld, val in ast.iter_fields(node):
            if fld in ('body', 'orelse', 'finalbody') and isinstance(val, list) and val and isinstance(val[0], ast.stmt):
                continue
            if isinstance(val, ast.AST):
                setattr(node, fld, self.visit(val))
            elif isinstance(val, list):
                setattr(node, fld, [self.visit(v) if isinstance(v, ast.AST) else v for v in val])
        return node


class _FlattenStar(ast.NodeTransformer):
    """f(*(a, b))  ->  f(a, b);   (a,) + (b,)  ->  (a, b)      (what parameter binding of a `*operands` helper leaves behind)"""
    count = 0

    def visit_BinOp(self, n):
        self.generic_visit(n)
        if isinstance(n.op, ast.Add) and isinstance(n.left, ast.Tuple) and isinstance(n.right, ast.Tuple) \
                and not any(isinstance(e, ast.Starred) for e in n.left.elts + n.right.elts):
            _FlattenStar.count += 1
            return ast.copy_location(ast.Tuple(elts=n.left.elts + n.right.elts, ctx=ast.Load()), n)
        return n

    def visit_Call(self, n):
        self.generic_visit(n)
        if any(isinstance(a, ast.Starred) and isinstance(a.value, ast.Tuple) for a in n.args):
            args = []
            for a in n.args:
                if isinstance(a, ast.Starred) and isinstance(a.value, ast.Tuple) and not any(isinstance(e, ast.Starred) for e in a.value.elts):
                    args.extend(a.value.elts)
                    _FlattenStar.count += 1
                else:
                    args.append(a)
            n.args = args
        return n


class _RepeatToList(ast.NodeTransformer):
    """X.extend(itertools.repeat(c, n)) / list(repeat(c, n)) / deque(repeat(c, n), ..)  ->  the same call over  [c] * n
    (a finite repeat consumed at once is that list; an unbounded repeat(c) is left alone)"""
    count = 0

    @staticmethod
    def _rep(e):
        if isinstance(e, ast.Call) and len(e.args) == 2 and not e.keywords and \
                ((isinstance(e.func, ast.Attribute) and e.func.attr == 'repeat' and isinstance(e.func.value, ast.Name) and e.func.value.id == 'itertools')
                 or (isinstance(e.func, ast.Name) and e.func.id == 'repeat')):
            return ast.copy_location(ast.BinOp(left=ast.List(elts=[e.args[0]], ctx=ast.Load()), op=ast.Mult(), right=e.args[1]), e)
        return None

    def visit_Call(self, n):
        self.generic_visit(n)
        consumer = (isinstance(n.func, ast.Attribute) and n.func.attr in ('extend', 'extendleft')) or \
                   (isinstance(n.func, ast.Name) and n.func.id in ('list', 'tuple', 'deque')) or \
                   (isinstance(n.func, ast.Attribute) and n.func.attr == 'deque')
        if consumer and n.args:
            r = self._rep(n.args[0])
            if r is not None:
                n.args[0] = r
                _RepeatToList.count += 1
        return n


class _UnrollRangeComp(ast.NodeTransformer):
    """[E(i) for i in range(C)]  ->  [E(0), .., E(C-1)]   for a literal C <= 4 (what binding `arity = 2` of an extracted helper leaves behind)"""
    count = 0

    def visit_ListComp(self, n):
        self.generic_visit(n)
        if len(n.generators) != 1:
            return n
        g = n.generators[0]
        if g.ifs or g.is_async or not isinstance(g.target, ast.Name):
            return n
        it = g.iter
        if not (isinstance(it, ast.Call) and isinstance(it.func, ast.Name) and it.func.id == 'range' and len(it.args) == 1 and not it.keywords
                and isinstance(it.args[0], ast.Constant) and type(it.args[0].value) is int and 0 <= it.args[0].value <= 4):
            return n
        var = g.target.id
        if not any(isinstance(x, ast.Name) and x.id == var for x in ast.walk(n.elt)):
            return n             # `[deque() for _ in range(2)]`: k equal containers, read as they are by the rules that meet them
        if any(isinstance(x, ast.Name) and x.id == var and not isinstance(x.ctx, ast.Load) for x in ast.walk(n.elt)) \
                or any(isinstance(x, (ast.Lambda, ast.ListComp, ast.SetComp, ast.DictComp, ast.GeneratorExp, ast.NamedExpr)) for x in ast.walk(n.elt)):
            return n
        elts = [_Subst({}, {var: ast.Constant(value=i)}).visit(copy.deepcopy(n.elt)) for i in range(it.args[0].value)]
        _UnrollRangeComp.count += 1
        return ast.copy_location(ast.List(elts=elts, ctx=ast.Load()), n)


def split_display_locals(fn):
    """x = [e0, .., ek]  (x bound once, never stored into, read only as `*x` in a call or `x[<literal>]`)
       ->  x__0 = e0; ..; x__k = ek   and   f(*x) -> f(x__0, .., x__k),  x[i] -> x__i.      The order of evaluation is kept."""
    stores, loads = {}, {}
    parent = {}
    for n in ast.walk(fn):
        for c in ast.iter_child_nodes(n):
            parent[id(c)] = n
        if isinstance(n, ast.Name):
            (loads if isinstance(n.ctx, ast.Load) else stores).setdefault(n.id, []).append(n)
    cands = {}

    def scan(stmts):
        for st in stmts:
            if isinstance(st, ast.Assign) and len(st.targets) == 1 and isinstance(st.targets[0], ast.Name) and isinstance(st.value, (ast.List, ast.Tuple)) \
                    and st.value.elts and not any(isinstance(e, ast.Starred) for e in st.value.elts) and len(stores.get(st.targets[0].id, ())) == 1:
                cands[st.targets[0].id] = st
            for field in ('body', 'orelse', 'finalbody'):
                b = getattr(st, field, None)
                if isinstance(b, list) and b and isinstance(b[0], ast.stmt) and not isinstance(st, (ast.FunctionDef, ast.ClassDef, ast.For, ast.While)):
                    scan(b)
    scan(fn.body)
    done = 0
    for name, st in list(cands.items()):
        k = len(st.value.elts)
        uses = loads.get(name, [])
        ok = bool(uses)
        for u in uses:
            p = parent.get(id(u))
            if isinstance(p, ast.Starred) and isinstance(parent.get(id(p)), ast.Call) and p in parent[id(p)].args:
                continue
            if isinstance(p, ast.Subscript) and p.value is u and isinstance(p.ctx, ast.Load) and isinstance(p.slice, ast.Constant) and type(p.slice.value) is int \
                    and 0 <= p.slice.value < k:
                continue
            ok = False
        if not ok:
            continue
        names = ['%s__%d' % (name, i) for i in range(k)]

        class T(ast.NodeTransformer):
            def visit_Call(self, n):
                self.generic_visit(n)
                args = []
                for a in n.args:
                    if isinstance(a, ast.Starred) and isinstance(a.value, ast.Name) and a.value.id == name:
                        args.extend(ast.Name(id=x, ctx=ast.Load()) for x in names)
                    else:
                        args.append(a)
                n.args = args
                return n

            def visit_Subscript(self, n):
                self.generic_visit(n)
                if isinstance(n.value, ast.Name) and n.value.id == name and isinstance(n.slice, ast.Constant):
                    return ast.copy_location(ast.Name(id=names[n.slice.value], ctx=ast.Load()), n)
                return n

        def block(stmts):
            out = []
            for s in stmts:
                if s is st:
                    for x, e in zip(names, st.value.elts):
                        out.append(ast.copy_location(ast.Assign(targets=[ast.Name(id=x, ctx=ast.Store())], value=e), st))
                    continue
                for field in ('body', 'orelse', 'finalbody'):
                    b = getattr(s, field, None)
                    if isinstance(b, list) and b and isinstance(b[0], ast.stmt):
                        setattr(s, field, block(b))
                out.append(T().visit(s))
            return out
        fn.body = block(fn.body)
        done += 1
    return done


# ====================================================================================================== driver
def lower_package(trees):
    """trees: {module name: ast.Module}; rewritten in place.  -> statistics"""
    pinned = pinned_defs()
    defs = {}
    for mn, tree in trees.items():
        for st in tree.body:
            if isinstance(st, ast.FunctionDef):
                defs.setdefault(st.name, []).append((mn, None, st))
            elif isinstance(st, ast.ClassDef):
                for s2 in st.body:
                    if isinstance(s2, ast.FunctionDef):
                        defs.setdefault(s2.name, []).append((mn, st.name, s2))
    helpers = {}
    for name, lst in defs.items():
        if name in pinned or len(lst) != 1 or (name.startswith('__') and name.endswith('__')):
            continue
        mn, cn, node = lst[0]
        h = Helper(node, mn, cn)
        if h.ok:
            helpers[name] = h
    stats = {'helpers': sorted(helpers), 'inlined': 0, 'dispatch': 0}
    if helpers:
        inl = Inliner(helpers)
        # helpers first (so that a helper calling a helper is flat when it is spliced), then everything else
        for rnd in range(3):
            for h in helpers.values():
                h.node.body = inl.block(h.node.body, h.clsname, None)
                h.body = _strip_doc(list(h.node.body))
                h.expr_body = h.body[0].value if (len(h.body) == 1 and isinstance(h.body[0], ast.Return) and h.body[0].value is not None) else None
        for mn, tree in trees.items():
            for st in tree.body:
                if isinstance(st, ast.FunctionDef) and st.name not in helpers:
                    st.body = inl.block(st.body, None, None)
                elif isinstance(st, ast.ClassDef):
                    for s2 in st.body:
                        if isinstance(s2, ast.FunctionDef) and s2.name not in helpers:
                            s2.body = inl.block(s2.body, st.name, None)
        stats['inlined'] = inl.count
    for mn, tree in trees.items():
        mt = _tables_of(tree.body)
        for st in tree.body:
            if isinstance(st, ast.FunctionDef) and mt:
                d = Dispatch(mt, {})
                d.function(st)
                stats['dispatch'] += d.count
            elif isinstance(st, ast.ClassDef):
                ct = _tables_of(st.body)
                if not (mt or ct):
                    continue
                for s2 in st.body:
                    if isinstance(s2, ast.FunctionDef):
                        d = Dispatch(mt, ct)
                        d.function(s2)
                        stats['dispatch'] += d.count
    # helper definitions that nothing refers to any more are gone from the program the rules see
    if helpers and stats['inlined']:
        refs = {}
        for tree in trees.values():
            for n in ast.walk(tree):
                if isinstance(n, ast.Name) and isinstance(n.ctx, ast.Load):
                    refs[n.id] = refs.get(n.id, 0) + 1
                elif isinstance(n, ast.Attribute) and isinstance(n.ctx, ast.Load):
                    refs[n.attr] = refs.get(n.attr, 0) + 1
                elif isinstance(n, ast.alias):
                    refs[n.name] = refs.get(n.name, 0) + 1
                elif isinstance(n, ast.Constant) and isinstance(n.value, str):
                    refs[n.value] = refs.get(n.value, 0) + 1
        dead = {name for name in helpers if not refs.get(name)}
        if dead:
            for tree in trees.values():
                tree.body = [st for st in tree.body if not (isinstance(st, ast.FunctionDef) and st.name in dead)]
                for st in tree.body:
                    if isinstance(st, ast.ClassDef):
                        st.body = [s2 for s2 in st.body if not (isinstance(s2, ast.FunctionDef) and s2.name in dead)] or [ast.Pass()]
        stats['removed'] = sorted(dead)
    for tree in trees.values():
        _RepeatToList().visit(tree)
    if stats['inlined']:
        for tree in trees.values():
            _FlattenStar().visit(tree)
            _FoldConstants().visit(tree)
            _UnrollRangeComp().visit(tree)
        stats['display_locals'] = 0
        for tree in trees.values():
            for st in tree.body:
                fns = [st] if isinstance(st, ast.FunctionDef) else ([s2 for s2 in st.body if isinstance(s2, ast.FunctionDef)] if isinstance(st, ast.ClassDef) else [])
                for fn in fns:
                    stats['display_locals'] += split_display_locals(fn)
    # class-level method aliases  `visitPow = visitAddition`  become definitions of their own (the same function under another name)
    stats['method_alias'] = 0
    for tree in trees.values():
        for st in tree.body:
            if not isinstance(st, ast.ClassDef):
                continue
            defs_here = {}
            new_body = []
            for s2 in st.body:
                if isinstance(s2, ast.FunctionDef):
                    defs_here[s2.name] = s2
                if isinstance(s2, ast.Assign) and len(s2.targets) == 1 and isinstance(s2.targets[0], ast.Name) and isinstance(s2.value, ast.Name) and s2.value.id in defs_here \
                        and not defs_here[s2.value.id].decorator_list:
                    cp = copy.deepcopy(defs_here[s2.value.id])
                    cp.name = s2.targets[0].id
                    ast.copy_location(cp, s2)
                    defs_here[cp.name] = cp
                    new_body.append(cp)
                    stats['method_alias'] += 1
                    continue
                new_body.append(s2)
            st.body = new_body
    stats['tuple_assign'] = 0
    stats['child_alias'] = 0
    stats['chained_assign'] = 0
    for tree in trees.values():
        for st in tree.body:
            fns = [st] if isinstance(st, ast.FunctionDef) else ([s2 for s2 in st.body if isinstance(s2, ast.FunctionDef)] if isinstance(st, ast.ClassDef) else [])
            for fn in fns:
                stats['chained_assign'] += split_chained_assign(fn)
                stats['tuple_assign'] += split_tuple_assign(fn)
                stats['child_alias'] += propagate_child_aliases(fn)
    for tree in trees.values():
        ast.fix_missing_locations(tree)
    return stats
