"""E8 -- findings, evidence, replay files, exit-code contract."""
import hashlib
import json
import os
import sys
import time

from sa.index import AnalysisError

VERIF = os.path.dirname(os.path.dirname(os.path.abspath(__file__)))
KNOWN_PATH = os.path.join(VERIF, 'known_findings.json')


class Finding(object):
    def __init__(self, rule, file, symbol, slot, message, line=None, detail=None):
        self.rule = rule
        self.file = file
        self.symbol = symbol
        self.slot = slot
        self.message = message
        self.line = line
        self.detail = detail or {}

    @property
    def key(self):
        # never keyed by line number
        return '%s|%s|%s|%s' % (self.rule, self.file, self.symbol, self.slot)

    def as_dict(self):
        return {'rule': self.rule, 'file': self.file, 'symbol': self.symbol, 'slot': self.slot,
                'line': self.line, 'message': self.message, 'detail': self.detail, 'key': self.key}

    def text(self):
        loc = '%s:%s' % (self.file, self.line if self.line is not None else '?')
        return '%s [%s] %s (%s): %s' % (loc, self.rule, self.symbol, self.slot, self.message)


class Report(object):
    """Collects rule instances (obligations), their verdicts, and what was analysed."""

    def __init__(self, property_id, tier='quick'):
        self.property_id = property_id
        self.tier = tier
        self.instances = []  # dicts: rule file symbol slot verdict note
        self.findings = []
        self.undecided_list = []
        self.analysed_functions = set()
        self.analysed_units = set()
        self.floors = []  # (name, observed, floor)
        self.notes = []
        self.errors = []  # analysis errors that do not stop the remaining rules (reported as exit 2 unless a violation is found)
        self.extra = {}
        self.t0 = time.time()
        self._keys = set()

    # -- recording ---------------------------------------------------------------------------------
    def _inst(self, verdict, rule, file, symbol, slot, note, line):
        d = {'rule': rule, 'file': file, 'symbol': symbol, 'slot': str(slot), 'verdict': verdict}
        if note:
            d['note'] = note
        if line is not None:
            d['line'] = line
        self.instances.append(d)

    def ok(self, rule, file, symbol, slot, note='', line=None):
        self._inst('holds', rule, file, symbol, slot, note, line)

    def fail(self, rule, file, symbol, slot, message, line=None, detail=None):
        f = Finding(rule, file, symbol, str(slot), message, line, detail)
        if f.key in self._keys:
            return f
        self._keys.add(f.key)
        self._inst('FAILS', rule, file, symbol, slot, message, line)
        self.findings.append(f)
        return f

    def undecided(self, rule, file, symbol, slot, why, line=None):
        self._inst('undecided', rule, file, symbol, slot, why, line)
        self.undecided_list.append({'rule': rule, 'file': file, 'symbol': symbol, 'slot': str(slot), 'why': why})

    def analysed(self, func_or_where):
        self.analysed_functions.add(func_or_where if isinstance(func_or_where, str) else
                                    '%s::%s' % (func_or_where.module.rel, func_or_where.qual))

    def unit(self, rel):
        self.analysed_units.add(rel)

    def floor(self, name, observed, floor):
        """A count confirmed by hand; falling under it means a rule silently matches nothing."""
        self.floors.append((name, observed, floor))

    def note(self, s):
        self.notes.append(s)

    def error(self, msg):
        self.errors.append(msg)


def load_known():
    if not os.path.exists(KNOWN_PATH):
        return {'findings': [], 'fixed': []}
    with open(KNOWN_PATH) as fh:
        return json.load(fh)


def seed():
    try:
        return int(os.environ.get('VERIF_SEED', '0'))
    except ValueError:
        return 0


def _p(*args):
    """print that survives a reader that went away (`check ... | head -1`): the exit code must not depend on who listens"""
    try:
        print(*args)
        sys.stdout.flush()
    except BrokenPipeError:
        try:
            sys.stdout = open(os.devnull, 'w')
        except Exception:
            pass


def finish(report, explanation, assumptions, rule_text, level='other', extra_cov=None, replay_filter=None):
    """Print the verdict, write evidence and replay files, return the exit code."""
    pid = report.property_id
    known = load_known()
    known_keys = {}
    for k in known.get('findings', []):
        if k.get('property') == pid:
            known_keys[k['key']] = k
    violations = []
    known_hits = []
    for f in report.findings:
        if f.key in known_keys:
            known_hits.append((f, known_keys[f.key]))
        else:
            violations.append(f)

    OUT = os.environ.get('SA_OUT', VERIF)     # developer probes on scratch copies write elsewhere
    os.makedirs(os.path.join(OUT, 'evidence'), exist_ok=True)
    replay_paths = []
    for f in violations:
        d = os.path.join(OUT, 'replay', pid)
        os.makedirs(d, exist_ok=True)
        digest = hashlib.sha1(f.key.encode()).hexdigest()[:10]
        p = os.path.join(d, '%s-%s.json' % (f.rule, digest))
        with open(p, 'w') as fh:
            json.dump({'property': pid, 'finding': f.as_dict(),
                       'how_to_replay': './check %s --replay %s' % (pid, p)}, fh, indent=1, sort_keys=True)
        replay_paths.append(p)

    holds = [i for i in report.instances if i['verdict'] == 'holds']
    fails = [i for i in report.instances if i['verdict'] == 'FAILS']
    und = [i for i in report.instances if i['verdict'] == 'undecided']
    distinct = set((i['rule'], i['file'], i['symbol'], i['slot']) for i in report.instances if i['verdict'] != 'undecided')
    rules = sorted(set(i['rule'] for i in report.instances))
    per_rule = {}
    for i in report.instances:
        per_rule.setdefault(i['rule'], {'holds': 0, 'FAILS': 0, 'undecided': 0})[i['verdict']] += 1

    # samples: a few instances of every rule, failures first
    samples = []
    for f in fails[:10]:
        samples.append(f)
    seen_rule = {}
    for i in holds:
        if seen_rule.get(i['rule'], 0) < 3:
            seen_rule[i['rule']] = seen_rule.get(i['rule'], 0) + 1
            samples.append(i)
    cov = {
        'explanation': explanation,
        'rule': rule_text,
        'evaluations': len(report.instances),
        'distinct_nontrivial': len(distinct),
        'obligations': len(holds) + len(fails),
        'discharged': len(holds),
        'undecided': len(und),
        'undecided_instances': report.undecided_list[:40],
        'rules_applied': rules,
        'per_rule': per_rule,
        'units_parsed': len(report.analysed_units),
        'functions_analysed': len(report.analysed_functions),
        'floors': [{'what': n, 'observed': o, 'floor': fl} for (n, o, fl) in report.floors],
        'samples': samples[:60],
        'known_findings_reported': [f.key for f, _ in known_hits],
        'notes': report.notes,
    }
    cov.update(report.extra)
    if extra_cov:
        cov.update(extra_cov)
    ev = {
        'property_id': pid,
        'tier': report.tier,
        'seed': seed(),
        'level': level,
        'coverage': cov,
        'assumptions': assumptions,
        'wall_s': round(time.time() - report.t0, 3),
        'violations': len(violations),
    }
    with open(os.path.join(OUT, 'evidence', '%s.json' % pid), 'w') as fh:
        json.dump(ev, fh, indent=1, sort_keys=True, default=str)

    _p('%s [%s]: %d rule instances (%d hold, %d fail, %d undecided) over %d functions in %d files; rules: %s'
          % (pid, report.tier, len(report.instances), len(holds), len(fails), len(und),
             len(report.analysed_functions), len(report.analysed_units), ', '.join(rules)))
    for (n, o, fl) in report.floors:
        _p('  analysed %-40s %4d (floor %d)' % (n, o, fl))
    for f, k in known_hits:
        _p('KNOWN-FINDING: property=%s %s -- %s' % (pid, f.key, k.get('what', f.message)))
    for f, p in zip(violations, replay_paths):
        _p('  ' + f.text())
        _p('VIOLATION property=%s replay=%s' % (pid, p))
    if violations:
        return 1
    if report.errors:
        for m in report.errors:
            _p('ANALYSIS-ERROR property=%s %s' % (pid, m))
        return 2
    low = [(n, o, fl) for (n, o, fl) in report.floors if o < fl]
    if low:
        # no violation found, but a rule matched fewer sites than confirmed by hand: it would pass vacuously
        for (n, o, fl) in low:
            _p('ANALYSIS-ERROR property=%s floor `%s`: analysed %d < %d confirmed on the pinned tree -- the rule would pass vacuously'
                  % (pid, n, o, fl))
        return 2
    return 0


def run_check(pid, fn, tier='quick', replay=None):
    """fn(report) -> (explanation, assumptions, rule_text[, extra])"""
    report = Report(pid, tier)
    try:
        res = fn(report)
        if replay:
            with open(replay) as fh:
                want = json.load(fh)['finding']['key']
            hit = [f for f in report.findings if f.key == want]
            if hit:
                for f in hit:
                    _p('REPLAY: still fails: ' + f.text())
                    _p(json.dumps(f.detail, indent=1, default=str))
                _p('VIOLATION property=%s replay=%s' % (pid, replay))
                return 1
            _p('REPLAY: rule instance %s holds on the current tree' % want)
            return 0
        explanation, assumptions, rule_text = res[:3]
        extra = res[3] if len(res) > 3 else None
        return finish(report, explanation, assumptions, rule_text, extra_cov=extra)
    except AnalysisError as e:
        # rule instances decided before the analyser had to give up stand: a violation among them is reported (exit 1), the error after it
        known = set(k.get('key') for k in load_known().get('findings', []) if k.get('property') == pid)
        if not replay and any(f.key not in known for f in report.findings):
            report.errors.append(str(e))
            rc = finish(report, 'the analysis stopped early (%s); the instances decided until then are reported' % e, [], '')
            _p('ANALYSIS-ERROR property=%s %s' % (pid, e))
            return rc
        _p('ANALYSIS-ERROR property=%s %s' % (pid, e))
        return 2
    except Exception as e:  # a traceback must never look like a violation
        import traceback
        traceback.print_exc()
        _p('ANALYSIS-ERROR property=%s internal error: %r' % (pid, e))
        return 2
