# positive fixture for R-GLOBAL / R-SETITER: every construct below must be reported by the rule on every run.
# (never imported, never executed; parsed with ast only)
CACHE = {}
COUNTER = 0


def remember(k, v):
    CACHE[k] = v          # R-GLOBAL: item assignment to a module-level dict


def bump():
    global COUNTER        # R-GLOBAL: global rebinding
    COUNTER = COUNTER + 1


def collect(x, acc=[]):   # R-GLOBAL: mutable default argument
    acc.append(x)
    return acc


class Shared(object):
    table = dict()        # class-level mutable

    def put(self, k, v):
        self.table[k] = v  # R-GLOBAL: mutation of a class-level object through self


class Ast(object):
    def __init__(self):
        self.free_vars = set()

    def names(self):
        out = []
        for v in self.free_vars:   # R-SETITER: order-sensitive iteration over a set
            out.append(v)
        return out

    def ordered(self, items):
        return sorted(items, key=id)   # R-SETITER: ordering by id()


from functools import lru_cache


@lru_cache(maxsize=None)
def the_interpreter():        # R-GLOBAL: a memoised function that builds an object hands the same object to every caller
    return make_interpreter(Visitor)()


@lru_cache(maxsize=None)
def the_interpreter_class():  # fine: a class may be built once
    return interpreter_factory(Visitor)


class TimedSince(object):
    andop = AndOperation()      # R-GLOBAL: one operation object for every TimedSince

    def update(self, l, r):
        return self.andop.update(l, r)
