"""AST normalisation shared by R-SIB and R-MIRROR.

normal form = the function with docstrings/pass/print removed, unreachable statements and dead pure local
assignments removed, (optionally) the dual map applied, commutative min/max arguments sorted, one named slot
abstracted, and locals alpha-renamed in order of first occurrence.
"""
import ast
import copy
import difflib

PURE_CALLS = ('float', 'int', 'list', 'dict', 'len', 'set', 'tuple')
KEEP_NAMES = ('min', 'max', 'float', 'int', 'len', 'range', 'enumerate', 'reversed', 'list', 'abs', 'zip', 'map', 'sorted', 'math',
              'intersect', 'collections', 'True', 'False', 'None', 'self', 'dict', 'tuple', 'set', 'print', 'isinstance', 'str',
              'Exception', 'RTAMTException', 'StlComparisonOperator', 'operator', 'deque')


def _is_pure(e):
    for n in ast.walk(e):
        if isinstance(n, ast.Call):
            f = n.func
            name = f.id if isinstance(f, ast.Name) else None
            if name not in PURE_CALLS:
                return False
        if isinstance(n, (ast.Yield, ast.Await)):
            return False
    return True


def strip_noise(fn):
    class T(ast.NodeTransformer):
        def _clean(self, body):
            out = []
            for st in body:
                if isinstance(st, ast.Expr) and isinstance(st.value, ast.Constant):
                    continue
                if isinstance(st, ast.Pass):
                    continue
                if isinstance(st, ast.Expr) and isinstance(st.value, ast.Call) and isinstance(st.value.func, ast.Name) and st.value.func.id == 'print':
                    continue
                out.append(st)
                if isinstance(st, (ast.Return, ast.Raise, ast.Continue, ast.Break)):
                    break  # unreachable tail
            return out or [ast.Pass()]

        def generic_visit(self, node):
            super().generic_visit(node)
            for field in ('body', 'orelse', 'finalbody'):
                b = getattr(node, field, None)
                if isinstance(b, list) and b and isinstance(b[0], ast.stmt):
                    cleaned = self._clean(b)
                    if field != 'body' and cleaned == [] or (len(cleaned) == 1 and isinstance(cleaned[0], ast.Pass) and field != 'body'):
                        cleaned = []
                    setattr(node, field, cleaned)
            return node
    return T().visit(fn)


def dce(fn, drop_self_attrs=()):
    """remove assignments to locals that are never read (pure right-hand sides only) and writes to the listed self attributes"""
    changed = True
    while changed:
        changed = False
        loads = set()
        for n in ast.walk(fn):
            if isinstance(n, ast.Name) and isinstance(n.ctx, ast.Load):
                loads.add(n.id)
            if isinstance(n, ast.AugAssign) and isinstance(n.target, ast.Name):
                pass

        class T(ast.NodeTransformer):
            def visit_Assign(self, st):
                nonlocal changed
                if len(st.targets) == 1 and isinstance(st.targets[0], ast.Name) and st.targets[0].id not in loads and _is_pure(st.value):
                    changed = True
                    return None
                if len(st.targets) == 1 and isinstance(st.targets[0], ast.Attribute) and isinstance(st.targets[0].value, ast.Name) \
                        and st.targets[0].value.id == 'self' and st.targets[0].attr in drop_self_attrs and _is_pure(st.value):
                    changed = True
                    return None
                return st
        fn = T().visit(fn)
        ast.fix_missing_locations(fn)
        fn = strip_noise(fn)
    return fn


# ------------------------------------------------------------------------------------------------- dual map
class ValueTyper(object):
    """which expressions denote robustness *values* (as opposed to times / indices) in dense-time code"""

    def __init__(self, fn):
        self.kind = {}  # name -> 'pairs' | 'triples' | 'pair' | 'triple' | 'value'
        params = [a.arg for a in fn.args.args]
        for p in params:
            if p not in ('self', 'begin', 'end', 'node', 'args', 'kwargs', 'method', 'item'):
                self.kind[p] = 'pairs'
        for _ in range(4):
            for n in ast.walk(fn):
                if isinstance(n, ast.Call) and isinstance(n.func, ast.Attribute) and n.func.attr in ('append', 'insert') and n.args:
                    a = n.args[-1]
                    base = self._base(n.func.value)
                    t = self.elem_kind(a)
                    if base and t:
                        self.kind.setdefault(base, t + 's')
                if isinstance(n, ast.Assign) and len(n.targets) == 1:
                    t = n.targets[0]
                    tn = self._base(t)
                    if tn is None:
                        continue
                    v = n.value
                    k = self.expr_kind(v)
                    if k:
                        self.kind.setdefault(tn, k)
                if isinstance(n, ast.For):
                    it = n.iter
                    while isinstance(it, ast.Call) and isinstance(it.func, ast.Name) and it.func.id in ('enumerate', 'reversed', 'list') and it.args:
                        it = it.args[0]
                    k = self.expr_kind(it)
                    tgt = n.target
                    if isinstance(tgt, ast.Tuple) and len(tgt.elts) == 2:
                        tgt = tgt.elts[1]
                    if isinstance(tgt, ast.Name) and k in ('pairs', 'triples'):
                        self.kind.setdefault(tgt.id, k[:-1])

    @staticmethod
    def _base(e):
        if isinstance(e, ast.Name):
            return e.id
        if isinstance(e, ast.Attribute) and isinstance(e.value, ast.Name) and e.value.id == 'self':
            return 'self.' + e.attr
        return None

    def elem_kind(self, a):
        if isinstance(a, (ast.Tuple, ast.List)):
            if len(a.elts) == 3:
                return 'triple'
            if len(a.elts) == 2:
                return 'pair'
        b = self._base(a)
        if b and self.kind.get(b) in ('pair', 'triple'):
            return self.kind[b]
        return None

    def expr_kind(self, v):
        b = self._base(v)
        if b:
            return self.kind.get(b)
        if isinstance(v, (ast.Tuple, ast.List)) and len(v.elts) in (2, 3):
            return 'triple' if len(v.elts) == 3 else 'pair'
        if isinstance(v, ast.Subscript):
            bk = self.expr_kind(v.value)
            if isinstance(v.slice, ast.Slice):
                return bk
            if bk in ('pairs', 'triples'):
                return bk[:-1]
            if self.is_value(v):
                return 'value'
        if isinstance(v, ast.BinOp) and isinstance(v.op, ast.Add):
            return self.expr_kind(v.left) or self.expr_kind(v.right)
        if isinstance(v, ast.Call) and isinstance(v.func, ast.Name) and v.func.id in ('min', 'max'):
            if any(self.is_value(a) for a in v.args):
                return 'value'
        return None

    def is_value(self, e):
        if isinstance(e, ast.Subscript) and isinstance(e.slice, ast.Constant) and isinstance(e.slice.value, int):
            bk = self.expr_kind(e.value)
            if bk == 'triple' and e.slice.value == 2:
                return True
            if bk == 'pair' and e.slice.value == 1:
                return True
            return False
        b = self._base(e)
        if b and self.kind.get(b) == 'value':
            return True
        if isinstance(e, ast.Call) and isinstance(e.func, ast.Name) and e.func.id in ('min', 'max'):
            return any(self.is_value(a) for a in e.args)
        return False


def _is_float_inf(n):
    return (isinstance(n, ast.Call) and isinstance(n.func, ast.Name) and n.func.id == 'float' and len(n.args) == 1
            and isinstance(n.args[0], ast.Constant) and str(n.args[0].value).lower() in ('inf', '+inf', 'infinity'))


class Dual(ast.NodeTransformer):
    """the dual map: min<->max, +inf<->-inf in value positions, order comparisons flipped where an operand is a value"""
    FLIP = {ast.Lt: ast.Gt, ast.Gt: ast.Lt, ast.LtE: ast.GtE, ast.GtE: ast.LtE}

    def __init__(self, typer):
        self.typer = typer
        self.flipped = 0
        self.time_ctx = 0

    def visit_Call(self, n):
        if _is_float_inf(n):
            if self.time_ctx:
                return n
            return ast.UnaryOp(op=ast.USub(), operand=n)
        self.generic_visit(n)
        return n

    def visit_Name(self, n):
        # min / max called or passed as a function value (map(min, ...))
        if n.id in ('min', 'max') and isinstance(n.ctx, ast.Load):
            return ast.Name(id='max' if n.id == 'min' else 'min', ctx=ast.Load())
        return n

    def visit_UnaryOp(self, n):
        if isinstance(n.op, ast.USub) and _is_float_inf(n.operand):
            return n if self.time_ctx else n.operand
        self.generic_visit(n)
        return n

    def _display(self, n):
        # (start, end, value) triples and [time, value] pairs: the leading components are times
        k = len(n.elts)
        if k in (2, 3) and isinstance(n.ctx, ast.Load):
            new = []
            for i, e in enumerate(n.elts):
                if i < k - 1:
                    self.time_ctx += 1
                    new.append(self.visit(e))
                    self.time_ctx -= 1
                else:
                    new.append(self.visit(e))
            n.elts = new
            return n
        self.generic_visit(n)
        return n

    def visit_Tuple(self, n):
        return self._display(n)

    def visit_List(self, n):
        return self._display(n)

    def visit_Compare(self, n):
        vals = [n.left] + list(n.comparators)
        isv = any(self.typer.is_value(v) for v in vals)
        if not isv:
            self.time_ctx += 1
            self.generic_visit(n)
            self.time_ctx -= 1
            return n
        self.generic_visit(n)
        n.ops = [self.FLIP.get(type(o), type(o))() for o in n.ops]
        self.flipped += 1
        return n


class SortCommutative(ast.NodeTransformer):
    def visit_Call(self, n):
        self.generic_visit(n)
        if isinstance(n.func, ast.Name) and n.func.id in ('min', 'max') and len(n.args) >= 2 and not n.keywords:
            n.args = sorted(n.args, key=lambda a: ast.dump(a))
        return n


class Rename(ast.NodeTransformer):
    def __init__(self, keep=()):
        self.m = {}
        self.keep = set(KEEP_NAMES) | set(keep)

    def _n(self, s):
        if s in self.keep:
            return s
        if s not in self.m:
            self.m[s] = 'v%d' % len(self.m)
        return self.m[s]

    def visit_Name(self, n):
        return ast.copy_location(ast.Name(id=self._n(n.id), ctx=n.ctx), n)

    def visit_arg(self, n):
        n.arg = self._n(n.arg)
        return n


class AbstractSlot(ast.NodeTransformer):
    """replace ``intersect.<fn>`` (or another named attribute slot) by a placeholder and record it"""

    def __init__(self, module_alias='intersect'):
        self.alias = module_alias
        self.slots = []

    def visit_Attribute(self, n):
        self.generic_visit(n)
        if isinstance(n.value, ast.Name) and n.value.id == self.alias and n.attr not in ('intersection', 'intersects'):
            self.slots.append(n.attr)
            return ast.Name(id='__SLOT__', ctx=ast.Load())
        return n


def reorder_const_inits(fn):
    """a run of consecutive `name = <expression without names>` statements is independent: order it canonically"""
    def const_init(st):
        return (isinstance(st, ast.Assign) and len(st.targets) == 1 and isinstance(st.targets[0], ast.Name)
                and not any(isinstance(n, ast.Name) and n.id not in ('float', 'int', 'list', 'dict') for n in ast.walk(st.value))
                and not any(isinstance(n, ast.Attribute) for n in ast.walk(st.value)))
    for node in ast.walk(fn):
        for field in ('body', 'orelse'):
            b = getattr(node, field, None)
            if not (isinstance(b, list) and b and isinstance(b[0], ast.stmt)):
                continue
            out, run = [], []
            for st in b:
                if const_init(st):
                    run.append(st)
                else:
                    out.extend(sorted(run, key=lambda s: (ast.dump(s.value), s.targets[0].id)))
                    run = []
                    out.append(st)
            out.extend(sorted(run, key=lambda s: (ast.dump(s.value), s.targets[0].id)))
            setattr(node, field, out)
    return fn


class ExpandAugAssign(ast.NodeTransformer):
    """`self.a += b` and `self.a = self.a + b` are the same statement for the rebinding view the comparison takes"""
    def visit_AugAssign(self, n):
        if isinstance(n.target, ast.Attribute) and isinstance(n.target.value, ast.Name) and n.target.value.id == 'self':
            load = ast.Attribute(value=ast.Name(id='self', ctx=ast.Load()), attr=n.target.attr, ctx=ast.Load())
            return ast.copy_location(ast.Assign(targets=[n.target], value=ast.BinOp(left=load, op=n.op, right=n.value)), n)
        return n


class Canon(ast.NodeTransformer):
    """spellings of one statement brought to one form (applied to both sides of every comparison):
      L[len(L) - 1] -> L[-1];   del L[-1] / L.pop(-1) -> L.pop();   if A: (if B: S) -> if A and B: S;   if A: S elif B: S -> if A or B: S;
      X + list(Y) -> X + Y;   for i, v in enumerate(S) with i unused -> for v in S"""

    def visit_Subscript(self, n):
        self.generic_visit(n)
        sl = n.slice
        if isinstance(sl, ast.BinOp) and isinstance(sl.op, ast.Sub) and isinstance(sl.right, ast.Constant) and isinstance(sl.right.value, int) \
                and not isinstance(sl.right.value, bool) and sl.right.value >= 1 \
                and isinstance(sl.left, ast.Call) and isinstance(sl.left.func, ast.Name) and sl.left.func.id == 'len' and len(sl.left.args) == 1 \
                and ast.dump(sl.left.args[0]) == ast.dump(_as_load(n.value)):
            n.slice = ast.UnaryOp(op=ast.USub(), operand=ast.Constant(value=sl.right.value))
        elif isinstance(sl, ast.Constant) and isinstance(sl.value, int) and not isinstance(sl.value, bool) and sl.value < 0:
            n.slice = ast.UnaryOp(op=ast.USub(), operand=ast.Constant(value=-sl.value))
        return n

    def visit_Delete(self, n):
        self.generic_visit(n)
        if len(n.targets) == 1 and isinstance(n.targets[0], ast.Subscript) and ast.unparse(n.targets[0].slice).replace(' ', '') == '-1':
            return ast.copy_location(ast.Expr(value=ast.Call(func=ast.Attribute(value=_as_load(n.targets[0].value), attr='pop', ctx=ast.Load()), args=[], keywords=[])), n)
        return n

    def visit_Call(self, n):
        self.generic_visit(n)
        if isinstance(n.func, ast.Attribute) and n.func.attr == 'pop' and len(n.args) == 1 and not n.keywords and ast.unparse(n.args[0]).replace(' ', '') == '-1':
            n.args = []
        return n

    def visit_BinOp(self, n):
        self.generic_visit(n)
        if isinstance(n.op, ast.Add):
            for side in ('left', 'right'):
                e = getattr(n, side)
                if isinstance(e, ast.Call) and isinstance(e.func, ast.Name) and e.func.id == 'list' and len(e.args) == 1 and not e.keywords \
                        and isinstance(e.args[0], (ast.Name, ast.Attribute, ast.Subscript)):
                    setattr(n, side, e.args[0])
        return n

    def visit_For(self, n):
        self.generic_visit(n)
        if isinstance(n.iter, ast.Call) and isinstance(n.iter.func, ast.Name) and n.iter.func.id == 'enumerate' and len(n.iter.args) == 1 and not n.iter.keywords \
                and isinstance(n.target, ast.Tuple) and len(n.target.elts) == 2 and isinstance(n.target.elts[0], ast.Name):
            idx = n.target.elts[0].id
            used = any(isinstance(x, ast.Name) and x.id == idx and isinstance(x.ctx, ast.Load) for st in n.body + n.orelse for x in ast.walk(st))
            if not used:
                n.target = n.target.elts[1]
                n.iter = n.iter.args[0]
        return n

    def visit_If(self, n):
        self.generic_visit(n)
        changed = True
        while changed:
            changed = False
            # if A: (if B: S)   ->   if A and B: S
            if not n.orelse and len(n.body) == 1 and isinstance(n.body[0], ast.If) and not n.body[0].orelse:
                n = ast.copy_location(ast.If(test=_and(n.test, n.body[0].test), body=n.body[0].body, orelse=[]), n)
                changed = True
            # if A: S elif B: S [else: R]   ->   if A or B: S [else: R]
            if len(n.orelse) == 1 and isinstance(n.orelse[0], ast.If) and [ast.dump(x) for x in n.body] == [ast.dump(x) for x in n.orelse[0].body]:
                n = ast.copy_location(ast.If(test=_or(n.test, n.orelse[0].test), body=n.body, orelse=n.orelse[0].orelse), n)
                changed = True
        return n


def split_pops(fn):
    """`v = L.pop()` -> `v = L[-1]; L.pop()`, and a pop() statement directly followed by bindings `name = <subscripts of other names>` is moved
    behind them (the bindings read neither L nor anything the pop changes -- distinct local lists are taken not to alias)"""
    for node in ast.walk(fn):
        for field in ('body', 'orelse', 'finalbody'):
            b = getattr(node, field, None)
            if not (isinstance(b, list) and b and isinstance(b[0], ast.stmt)):
                continue
            out = []
            for st in b:
                if isinstance(st, ast.Assign) and len(st.targets) == 1 and isinstance(st.targets[0], ast.Name) and isinstance(st.value, ast.Call) \
                        and isinstance(st.value.func, ast.Attribute) and st.value.func.attr == 'pop' and not st.value.args and not st.value.keywords \
                        and isinstance(st.value.func.value, (ast.Name, ast.Attribute)):
                    L = st.value.func.value
                    top = ast.Subscript(value=copy.deepcopy(L), slice=ast.UnaryOp(op=ast.USub(), operand=ast.Constant(value=1)), ctx=ast.Load())
                    out.append(ast.copy_location(ast.Assign(targets=st.targets, value=top), st))
                    out.append(ast.copy_location(ast.Expr(value=st.value), st))
                else:
                    out.append(st)
            # bubble pop() statements behind independent bindings
            moved = True
            while moved:
                moved = False
                for k in range(len(out) - 1):
                    a, c = out[k], out[k + 1]
                    if isinstance(a, ast.Expr) and isinstance(a.value, ast.Call) and isinstance(a.value.func, ast.Attribute) and a.value.func.attr == 'pop' \
                            and not a.value.args and isinstance(c, ast.Assign) and len(c.targets) == 1 and isinstance(c.targets[0], ast.Name) \
                            and not any(isinstance(x, ast.Call) for x in ast.walk(c.value)):
                        base = ast.dump(_as_load(a.value.func.value))
                        reads = {ast.dump(_as_load(x)) for x in ast.walk(c.value) if isinstance(x, (ast.Name, ast.Attribute))}
                        if base not in reads and c.targets[0].id not in {x.id for x in ast.walk(a) if isinstance(x, ast.Name)}:
                            out[k], out[k + 1] = c, a
                            moved = True
            setattr(node, field, out)
    return fn


def _as_load(e):
    e = copy.deepcopy(e)
    for x in ast.walk(e):
        if hasattr(x, 'ctx'):
            x.ctx = ast.Load()
    return e


def _and(a, b):
    vals = (a.values if isinstance(a, ast.BoolOp) and isinstance(a.op, ast.And) else [a]) + (b.values if isinstance(b, ast.BoolOp) and isinstance(b.op, ast.And) else [b])
    return ast.BoolOp(op=ast.And(), values=list(vals))


def _or(a, b):
    vals = (a.values if isinstance(a, ast.BoolOp) and isinstance(a.op, ast.Or) else [a]) + (b.values if isinstance(b, ast.BoolOp) and isinstance(b.op, ast.Or) else [b])
    return ast.BoolOp(op=ast.Or(), values=list(vals))


class OrientCompare(ast.NodeTransformer):
    """a > b -> b < a;  a >= b -> b <= a;  a <= x < b -> a <= x and x < b;  == / != with the operands in a fixed order"""
    SWAP = {ast.Gt: ast.Lt, ast.GtE: ast.LtE}

    def visit_Compare(self, n):
        self.generic_visit(n)
        parts = []
        left = n.left
        for op, right in zip(n.ops, n.comparators):
            l, r, o = left, right, op
            if type(o) in self.SWAP:
                l, r, o = r, l, self.SWAP[type(o)]()
            elif isinstance(o, (ast.Eq, ast.NotEq)) and ast.dump(l) > ast.dump(r):
                l, r = r, l
            parts.append(ast.Compare(left=copy.deepcopy(l), ops=[o], comparators=[copy.deepcopy(r)]))
            left = right
        if len(parts) == 1:
            return ast.copy_location(parts[0], n)
        return ast.copy_location(ast.BoolOp(op=ast.And(), values=parts), n)

    NEG = {ast.Lt: ast.GtE, ast.GtE: ast.Lt, ast.Gt: ast.LtE, ast.LtE: ast.Gt, ast.Eq: ast.NotEq, ast.NotEq: ast.Eq, ast.In: ast.NotIn, ast.NotIn: ast.In,
           ast.Is: ast.IsNot, ast.IsNot: ast.Is}

    def visit_UnaryOp(self, n):
        # not (a < b)  ->  a >= b   (orders over numbers; a NaN operand is outside what the comparison is used for)
        if isinstance(n.op, ast.Not) and isinstance(n.operand, ast.Compare) and len(n.operand.ops) == 1 and type(n.operand.ops[0]) in self.NEG:
            c = n.operand
            return self.visit(ast.copy_location(ast.Compare(left=c.left, ops=[self.NEG[type(c.ops[0])]()], comparators=c.comparators), n))
        self.generic_visit(n)
        return n

    def visit_BoolOp(self, n):
        self.generic_visit(n)
        vals = []
        for v in n.values:
            if isinstance(v, ast.BoolOp) and type(v.op) is type(n.op):
                vals.extend(v.values)
            else:
                vals.append(v)
        n.values = vals
        return n



def _is_path(e):
    """X[i], X[i][k], X.a[i]: an element read through names and constants only"""
    if isinstance(e, ast.Subscript) and not isinstance(e.slice, ast.Slice):
        return (_is_path(e.value) or isinstance(e.value, ast.Name) or (isinstance(e.value, ast.Attribute) and isinstance(e.value.value, ast.Name))) \
            and isinstance(e.slice, (ast.Name, ast.Constant))
    return False


def inline_bool_temps(fn, paths=False):
    """a local bound exactly once to a test (comparison / and / or / not) and read only afterwards in the same block stands for the test: `c = A and B; if c:` is
    `if A and B:` -- provided nothing the test reads is assigned between the binding and the last use (checked coarsely: no store to any name or attribute the
    test mentions anywhere later in the function)"""
    stores = {}
    for n in ast.walk(fn):
        if isinstance(n, ast.Name) and isinstance(n.ctx, ast.Store):
            stores[n.id] = stores.get(n.id, 0) + 1
    cands = {}
    for blk_owner in ast.walk(fn):
        for fld in ('body', 'orelse'):
            blk = getattr(blk_owner, fld, None)
            if not (isinstance(blk, list) and blk and isinstance(blk[0], ast.stmt)):
                continue
            for k, st in enumerate(blk):
                if isinstance(st, ast.Assign) and len(st.targets) == 1 and isinstance(st.targets[0], ast.Name) and stores.get(st.targets[0].id) == 1 \
                        and (isinstance(st.value, (ast.Compare, ast.BoolOp)) or (isinstance(st.value, ast.UnaryOp) and isinstance(st.value.op, ast.Not))
                             or (paths and _is_path(st.value))):
                    name = st.targets[0].id
                    reads = {x.id for x in ast.walk(st.value) if isinstance(x, ast.Name)}
                    attrs = {ast.unparse(x) for x in ast.walk(st.value) if isinstance(x, ast.Attribute)}
                    later = blk[k + 1:]
                    clobber = False
                    use_idx = [i_ for i_, q in enumerate(later) if any(isinstance(x, ast.Name) and x.id == name and isinstance(x.ctx, ast.Load) for x in ast.walk(q))]
                    last_use = use_idx[-1] if use_idx else -1
                    # what lies strictly between the binding and the last statement that reads it (a simple statement evaluates its right-hand side, where the
                    # reads are, before it stores)
                    between = later[:last_use] + ([later[last_use]] if last_use >= 0 and not isinstance(later[last_use], (ast.Assign, ast.Expr, ast.Return, ast.If)) else [])
                    if last_use >= 0 and isinstance(later[last_use], ast.If):
                        # the test is evaluated first; stores inside the arms come after it -- unless the name is read again inside the arms
                        inner = [x for b_ in later[last_use].body + later[last_use].orelse for x in ast.walk(b_) if isinstance(x, ast.Name) and x.id == name]
                        if inner:
                            between = between + [later[last_use]]
                    for q in between:
                        for x in ast.walk(q):
                            if isinstance(x, ast.Name) and isinstance(x.ctx, ast.Store) and x.id in reads:
                                clobber = True
                            if isinstance(x, ast.Attribute) and isinstance(x.ctx, ast.Store) and ast.unparse(x) in attrs:
                                clobber = True
                            if isinstance(x, ast.Call) and isinstance(x.func, ast.Attribute) and x.func.attr in ('pop', 'append', 'insert', 'clear', 'extend', 'popleft', 'appendleft') \
                                    and any(ast.unparse(x.func.value) in ast.unparse(st.value) for _ in (0,)):
                                clobber = True
                    uses = [x for q in later for x in ast.walk(q) if isinstance(x, ast.Name) and x.id == name and isinstance(x.ctx, ast.Load)]
                    all_uses = [x for x in ast.walk(fn) if isinstance(x, ast.Name) and x.id == name and isinstance(x.ctx, ast.Load)]
                    if uses and len(uses) == len(all_uses) and not clobber:
                        cands[name] = (st, st.value)
    if not cands:
        return fn

    class Sub(ast.NodeTransformer):
        def visit_Name(self, n):
            if isinstance(n.ctx, ast.Load) and n.id in cands:
                return copy.deepcopy(cands[n.id][1])
            return n
    drop = {id(v[0]) for v in cands.values()}

    def block(stmts):
        out = []
        for st in stmts:
            if id(st) in drop:
                continue
            for fld in ('body', 'orelse', 'finalbody'):
                b = getattr(st, fld, None)
                if isinstance(b, list) and b and isinstance(b[0], ast.stmt):
                    setattr(st, fld, block(b) or [ast.Pass()])
            out.append(st)
        return out
    fn.body = block(fn.body)
    fn = Sub().visit(fn)
    ast.fix_missing_locations(fn)
    return fn


def split_ifexp_assign(fn):
    """T = E[ X if c else Y ]  (one conditional expression in the value)   ->   if c: T = E[X] else: T = E[Y]"""
    def block(stmts):
        out = []
        for st in stmts:
            for fld in ('body', 'orelse', 'finalbody'):
                b = getattr(st, fld, None)
                if isinstance(b, list) and b and isinstance(b[0], ast.stmt):
                    setattr(st, fld, block(b))
            if isinstance(st, ast.Assign):
                ifs = [x for x in ast.walk(st.value) if isinstance(x, ast.IfExp)]
                if len(ifs) == 1 and not any(isinstance(x, (ast.Lambda, ast.ListComp, ast.GeneratorExp, ast.SetComp, ast.DictComp)) for x in ast.walk(st.value)):
                    ie = ifs[0]

                    def with_(arm):
                        class R(ast.NodeTransformer):
                            def visit_IfExp(self, n):
                                return copy.deepcopy(arm) if n is ie2 else n
                        cp = copy.deepcopy(st)
                        ie2 = [x for x in ast.walk(cp.value) if isinstance(x, ast.IfExp)][0]
                        arm_ = copy.deepcopy(ie2.body if arm == 'b' else ie2.orelse)

                        class R2(ast.NodeTransformer):
                            def visit_IfExp(self, n):
                                return arm_ if n is ie2 else n
                        cp.value = R2().visit(cp.value)
                        return cp
                    a, b = with_('b'), with_('o')
                    node = ast.copy_location(ast.If(test=copy.deepcopy(ie.test), body=[a], orelse=[b]), st)
                    out.append(node)
                    continue
            out.append(st)
        return out
    fn.body = block(fn.body)
    ast.fix_missing_locations(fn)
    return fn


def normal_form(fn, dual=False, drop_self_attrs=(), abstract_slot=False, sort_init=False, keep=()):
    fn = copy.deepcopy(fn)
    fn.name = 'F'
    fn.decorator_list = []
    fn = strip_noise(fn)
    fn = inline_bool_temps(fn, paths=True)      # and elements read into a local (`v = xs[i]`)
    fn = split_ifexp_assign(fn)
    fn = ExpandAugAssign().visit(fn)
    fn = Canon().visit(fn)
    fn = split_pops(fn)
    ast.fix_missing_locations(fn)
    fn = dce(fn, drop_self_attrs)
    slots = []
    if dual:
        typer = ValueTyper(fn)
        fn = Dual(typer).visit(fn)
    fn = OrientCompare().visit(fn)
    ast.fix_missing_locations(fn)
    if abstract_slot:
        a = AbstractSlot()
        fn = a.visit(fn)
        slots = a.slots
    fn = SortCommutative().visit(fn)
    fn = reorder_const_inits(fn)
    if sort_init:
        simple = all(isinstance(s, ast.Assign) for s in fn.body)
        if simple:
            fn.body = sorted(fn.body, key=lambda s: ast.dump(s))
    fn = Rename(keep).visit(fn)
    ast.fix_missing_locations(fn)
    return ast.dump(fn, annotate_fields=False, include_attributes=False), ast.unparse(fn), slots


def text_diff(a_text, b_text, n=1, limit=14):
    out = list(difflib.unified_diff(a_text.splitlines(), b_text.splitlines(), lineterm='', n=n))
    return [l for l in out if not l.startswith(('---', '+++'))][:limit]


def guards_to_chain(fnode):
    """guard clauses to an if/elif/else chain (on a copy; meaning unchanged):
         if A: X; return r                    if A: X; return r
         if B: Y; return s          ->        elif B: Y; return s
         Z                                    else: Z
       applied to every block, innermost first: a statement `if T: ...<ends in return/raise/continue/break>` without else takes the rest of its block
       as its else-arm."""
    import copy
    fn = copy.deepcopy(fnode)

    def ends(body):
        return bool(body) and isinstance(body[-1], (ast.Return, ast.Raise, ast.Continue, ast.Break))

    def block(stmts):
        stmts = list(stmts)
        for st in stmts:
            for fld in ('body', 'orelse', 'finalbody'):
                b = getattr(st, fld, None)
                if isinstance(b, list) and b and isinstance(b[0], ast.stmt):
                    setattr(st, fld, block(b))
            for h in getattr(st, 'handlers', []) or []:
                h.body = block(h.body)
        for k in range(len(stmts) - 1, -1, -1):
            st = stmts[k]
            if isinstance(st, ast.If) and not st.orelse and ends(st.body) and stmts[k + 1:]:
                st.orelse = stmts[k + 1:]
                stmts = stmts[:k + 1]
        return stmts
    fn.body = block(fn.body)
    ast.fix_missing_locations(fn)
    return fn


def while_to_for(fnode):
    """counting while loops as the range loops they are (on a copy):
         i = A                                  i = A
         while i < B: BODY; i = i + 1     ->    for i in range(A, B): BODY
         while i < B: i = i + 1; BODY     ->    for i in range(A + 1, B + 1): BODY
       (`<=` adds one to the stop).  Only when the counter is written nowhere else in the loop, the bound is not written in the loop, and the body has no
       break / continue; the value of the counter after the loop must not be read."""
    import copy
    fn = copy.deepcopy(fnode)

    def incr_of(st, name):
        if isinstance(st, ast.AugAssign) and isinstance(st.target, ast.Name) and st.target.id == name and isinstance(st.op, ast.Add) and isinstance(st.value, ast.Constant) and st.value.value == 1:
            return True
        if isinstance(st, ast.Assign) and len(st.targets) == 1 and isinstance(st.targets[0], ast.Name) and st.targets[0].id == name and isinstance(st.value, ast.BinOp) \
                and isinstance(st.value.op, ast.Add):
            l, r = st.value.left, st.value.right
            return (isinstance(l, ast.Name) and l.id == name and isinstance(r, ast.Constant) and r.value == 1) or (isinstance(r, ast.Name) and r.id == name and isinstance(l, ast.Constant) and l.value == 1)
        return False

    def plus(e, k):
        if k == 0:
            return e
        if isinstance(e, ast.Constant) and isinstance(e.value, int):
            return ast.Constant(value=e.value + k)
        return ast.BinOp(left=e, op=ast.Add(), right=ast.Constant(value=k))

    def block(stmts):
        out = []
        k = 0
        while k < len(stmts):
            st = stmts[k]
            for fld in ('body', 'orelse', 'finalbody'):
                b = getattr(st, fld, None)
                if isinstance(b, list) and b and isinstance(b[0], ast.stmt):
                    setattr(st, fld, block(b))
            done = False
            if isinstance(st, ast.While) and not st.orelse and isinstance(st.test, ast.Compare) and len(st.test.ops) == 1 and isinstance(st.test.ops[0], (ast.Lt, ast.LtE)) \
                    and isinstance(st.test.left, ast.Name) and out and isinstance(out[-1], ast.Assign) and len(out[-1].targets) == 1 and isinstance(out[-1].targets[0], ast.Name) \
                    and out[-1].targets[0].id == st.test.left.id and len(st.body) >= 2:
                name = st.test.left.id
                bound = st.test.comparators[0]
                body = st.body
                first, last = incr_of(body[0], name), incr_of(body[-1], name)
                rest = body[1:] if first else body[:-1] if last else None
                bnames = {x.id for x in ast.walk(bound) if isinstance(x, ast.Name)}
                clean = rest is not None and first != last \
                    and not any(isinstance(x, (ast.Break, ast.Continue)) for q in rest for x in ast.walk(q)) \
                    and not any(isinstance(x, ast.Name) and isinstance(x.ctx, ast.Store) and (x.id == name or x.id in bnames) for q in rest for x in ast.walk(q)) \
                    and not any(isinstance(x, ast.Name) and x.id == name for q in stmts[k + 1:] for x in ast.walk(q))
                if clean:
                    start = out[-1].value
                    extra = 1 if isinstance(st.test.ops[0], ast.LtE) else 0
                    shift = 1 if first else 0
                    rng = ast.Call(func=ast.Name(id='range', ctx=ast.Load()), args=[plus(start, shift), plus(bound, shift + extra)], keywords=[])
                    if isinstance(rng.args[0], ast.Constant) and rng.args[0].value == 0:
                        rng.args = rng.args[1:]
                    loop = ast.For(target=ast.Name(id=name, ctx=ast.Store()), iter=rng, body=rest, orelse=[])
                    ast.copy_location(loop, st)
                    out.pop()
                    out.append(loop)
                    done = True
            if not done:
                out.append(st)
            k += 1
        return out
    fn.body = block(fn.body)
    ast.fix_missing_locations(fn)
    return fn


def split_tuple_locals(fnode):
    """(on a copy)  a = b = v            ->  b = v; a = v        (v an access path or a constant)
                    t = (X, Y)           ->  t__0 = X; t__1 = Y   when t is bound once and only unpacked, iterated or indexed by a literal:
                    for v in t: ...      ->  for v in (t__0, t__1): ...
                    p, q = t             ->  p = t__0; q = t__1
                    t[k]                 ->  t__k"""
    import copy
    fn = copy.deepcopy(fnode)
    stores = {}
    for n in ast.walk(fn):
        if isinstance(n, ast.Name) and isinstance(n.ctx, ast.Store):
            stores[n.id] = stores.get(n.id, 0) + 1
    tuples = {}
    for n in ast.walk(fn):
        if isinstance(n, ast.Assign) and len(n.targets) == 1 and isinstance(n.targets[0], ast.Name) and stores.get(n.targets[0].id) == 1 and isinstance(n.value, ast.Tuple) \
                and n.value.elts and not any(isinstance(e, ast.Starred) for e in n.value.elts):
            name = n.targets[0].id
            ok = True
            for u in ast.walk(fn):
                if isinstance(u, ast.Name) and u.id == name and isinstance(u.ctx, ast.Load):
                    ok = ok and _tuple_use_ok(fn, u)
            if ok:
                tuples[name] = len(n.value.elts)

    def part(name, k):
        return ast.Name(id='%s__%d' % (name, k), ctx=ast.Load())

    class T(ast.NodeTransformer):
        def visit_Subscript(self, n):
            self.generic_visit(n)
            if isinstance(n.value, ast.Name) and n.value.id in tuples and isinstance(n.slice, ast.Constant) and isinstance(n.slice.value, int) and 0 <= n.slice.value < tuples[n.value.id]:
                return ast.copy_location(part(n.value.id, n.slice.value), n)
            return n

        def visit_For(self, n):
            self.generic_visit(n)
            if isinstance(n.iter, ast.Name) and n.iter.id in tuples:
                n.iter = ast.copy_location(ast.Tuple(elts=[part(n.iter.id, k) for k in range(tuples[n.iter.id])], ctx=ast.Load()), n.iter)
            return n

    def block(stmts):
        out = []
        for st in stmts:
            for fld in ('body', 'orelse', 'finalbody'):
                b = getattr(st, fld, None)
                if isinstance(b, list) and b and isinstance(b[0], ast.stmt):
                    setattr(st, fld, block(b))
            if isinstance(st, ast.Assign) and len(st.targets) > 1 and all(isinstance(t, ast.Name) for t in st.targets) and isinstance(st.value, (ast.Name, ast.Attribute, ast.Constant)):
                for t in reversed(st.targets):
                    out.append(ast.copy_location(ast.Assign(targets=[t], value=copy.deepcopy(st.value)), st))
                continue
            if isinstance(st, ast.Assign) and len(st.targets) == 1 and isinstance(st.targets[0], ast.Name) and st.targets[0].id in tuples and isinstance(st.value, ast.Tuple):
                for k, e in enumerate(st.value.elts):
                    out.append(ast.copy_location(ast.Assign(targets=[ast.Name(id='%s__%d' % (st.targets[0].id, k), ctx=ast.Store())], value=e), st))
                continue
            if isinstance(st, ast.Assign) and len(st.targets) == 1 and isinstance(st.targets[0], ast.Tuple) and isinstance(st.value, ast.Name) and st.value.id in tuples \
                    and len(st.targets[0].elts) == tuples[st.value.id] and all(isinstance(t, ast.Name) for t in st.targets[0].elts):
                for k, t in enumerate(st.targets[0].elts):
                    out.append(ast.copy_location(ast.Assign(targets=[t], value=part(st.value.id, k)), st))
                continue
            out.append(st)
        return out
    fn.body = block(fn.body)
    fn = T().visit(fn)
    ast.fix_missing_locations(fn)
    return fn


def _tuple_use_ok(fn, use):
    for p in ast.walk(fn):
        if isinstance(p, ast.For) and p.iter is use:
            return True
        if isinstance(p, ast.Assign) and p.value is use and len(p.targets) == 1 and isinstance(p.targets[0], ast.Tuple):
            return True
        if isinstance(p, ast.Subscript) and p.value is use and isinstance(p.slice, ast.Constant):
            return True
    return False
