"""E7 (second half) -- facts read from the *generated* parsers and lexers without importing them.

* context classes and their accessor methods (``XContext.interval()``, ``.expression(i)`` ...)
* for each left-recursive alternative of rule ``expression``: (context class, precpred level, level of the right operand)
* the lexer automaton: the serialized ATN string literal is extracted with ``ast`` and decoded with the ANTLR runtime's
  ``ATNDeserializer``; for keyword-like token rules the finite set of accepted strings is enumerated.
"""
import ast

from sa.index import AnalysisError


def context_classes(module):
    """{ContextName: {'accessors': set, 'base': name}} from a generated parser module (sa.index.Module)"""
    out = {}
    for top in module.tree.body:
        if isinstance(top, ast.ClassDef):
            for c in top.body:
                if isinstance(c, ast.ClassDef) and c.name.endswith('Context'):
                    acc = set()
                    for f in c.body:
                        if isinstance(f, ast.FunctionDef) and f.name not in ('__init__', 'enterRule', 'exitRule', 'accept', 'getRuleIndex', 'copyFrom'):
                            acc.add(f.name)
                    base = ast.unparse(c.bases[0]) if c.bases else None
                    out[c.name] = {'accessors': acc, 'base': base, 'line': c.lineno}
    return out


def visitor_methods(module):
    """names of visitX methods of the generated XParserVisitor"""
    out = set()
    for top in module.tree.body:
        if isinstance(top, ast.ClassDef):
            for f in top.body:
                if isinstance(f, ast.FunctionDef) and f.name.startswith('visit'):
                    out.add(f.name)
    return out


def accept_targets(module):
    """{ContextName: visit method its accept() dispatches to}"""
    out = {}
    for top in module.tree.body:
        if isinstance(top, ast.ClassDef):
            for c in top.body:
                if isinstance(c, ast.ClassDef):
                    for f in c.body:
                        if isinstance(f, ast.FunctionDef) and f.name == 'accept':
                            for n in ast.walk(f):
                                if isinstance(n, ast.Call) and isinstance(n.func, ast.Attribute) and n.func.attr.startswith('visit') and n.func.attr != 'visitChildren':
                                    out[c.name] = n.func.attr
    return out


def precedence_table(module, rule='expression'):
    """[(ContextName, precpred level, right operand level or None)] in generated order"""
    parser_cls = [c for c in module.tree.body if isinstance(c, ast.ClassDef)]
    if not parser_cls:
        raise AnalysisError('%s: no parser class' % module.rel)
    fn = None
    for f in parser_cls[0].body:
        if isinstance(f, ast.FunctionDef) and f.name == rule:
            fn = f
    if fn is None:
        raise AnalysisError('%s: rule method %s not found' % (module.rel, rule))
    out = []
    for n in ast.walk(fn):
        if isinstance(n, ast.If):
            # arms `la_ == k`
            t = n.test
            if isinstance(t, ast.Compare) and isinstance(t.left, ast.Name) and t.left.id == 'la_':
                ctxname = None
                prec = None
                right = None
                for st in n.body:
                    for c in ast.walk(st):
                        if isinstance(c, ast.Assign) and isinstance(c.targets[0], ast.Name) and c.targets[0].id == 'localctx' and isinstance(c.value, ast.Call):
                            nm = ast.unparse(c.value.func)
                            if nm.endswith('Context'):
                                ctxname = nm.split('.')[-1]
                        if isinstance(c, ast.Call) and isinstance(c.func, ast.Attribute) and c.func.attr == 'precpred' and len(c.args) == 2 \
                                and isinstance(c.args[1], ast.Constant):
                            prec = c.args[1].value
                        if isinstance(c, ast.Call) and isinstance(c.func, ast.Attribute) and c.func.attr == rule and c.args and isinstance(c.args[0], ast.Constant):
                            right = c.args[0].value
                if ctxname and prec is not None:
                    out.append((ctxname, prec, right))
    # de-duplicate preserving order
    seen = set()
    res = []
    for e in out:
        if e[0] not in seen:
            seen.add(e[0])
            res.append(e)
    return res


def entry_rule_ends_with_eof(grammar_rules, rule):
    alts = grammar_rules.get(rule)
    if not alts:
        return False
    return all(a.elems and a.elems[-1].kind == 'token' and a.elems[-1].value == 'EOF' for a in alts)


# ------------------------------------------------------------------------------------------------- lexer ATN
def lexer_atn(module):
    fn = [n for n in module.tree.body if isinstance(n, ast.FunctionDef) and n.name == 'serializedATN']
    if not fn:
        raise AnalysisError('%s: serializedATN() not found' % module.rel)
    parts = []
    for st in fn[0].body:
        for c in ast.walk(st):
            if isinstance(c, ast.Call) and isinstance(c.func, ast.Attribute) and c.func.attr == 'write' and c.args and isinstance(c.args[0], ast.Constant):
                parts.append(c.args[0].value)
    try:
        from antlr4.atn.ATNDeserializer import ATNDeserializer
    except ImportError as e:
        raise AnalysisError('ANTLR runtime not importable: %s' % e)
    atn = ATNDeserializer().deserialize(''.join(parts))
    cls = [n for n in module.tree.body if isinstance(n, ast.ClassDef)][0]
    rule_names = None
    for st in cls.body:
        if isinstance(st, ast.Assign) and getattr(st.targets[0], 'id', None) == 'ruleNames':
            rule_names = [e.value for e in st.value.elts]
    if rule_names is None:
        raise AnalysisError('%s: ruleNames not found' % module.rel)
    return atn, rule_names


def accepted_strings(atn, rule_idx, limit=60, maxlen=16):
    """finite set of strings the lexer rule accepts, or None if it is not a finite literal alternation"""
    from antlr4.atn.Transition import Transition
    start = atn.ruleToStartState[rule_idx]
    stop = atn.ruleToStopState[rule_idx]
    out = set()
    infinite = [False]

    def go(s, acc, depth, stack):
        if infinite[0]:
            return
        if len(out) > limit or len(acc) > maxlen or depth > 300:
            infinite[0] = True
            return
        if s is stop and not stack:
            out.add(acc)
            return
        if s.stateType == 7 and stack:
            go(stack[-1], acc, depth + 1, stack[:-1])
            return
        for t in s.transitions:
            k = t.serializationType
            if k in (Transition.EPSILON, Transition.ACTION):
                go(t.target, acc, depth + 1, stack)
            elif k == Transition.ATOM:
                go(t.target, acc + chr(t.label_), depth + 1, stack)
            elif k == Transition.RULE:
                go(t.target, acc, depth + 1, stack + [t.followState])
            else:
                infinite[0] = True
                return
    go(start, '', 0, [])
    return None if infinite[0] else out


def token_spellings(module):
    """{token rule name: set of strings or None}"""
    atn, names = lexer_atn(module)
    return {n: accepted_strings(atn, i) for i, n in enumerate(names)}
