"""E4 -- ownership analysis: is an object that belongs to the caller (or to the shared result store) mutated in place?

Abstract values (ordered F < FO < B):
    F   fresh object / scalar
    FO  fresh outer container whose elements may be borrowed
    B   borrowed: the object itself belongs to someone else (caller's data set, ast.var_object_dict / ast.results
        entries, the result of ``self.visit(child)`` which may be the caller's list through visitVariable)

Sinks: in-place mutation of a B object, or of an element of an FO/B container.
Helper functions get summaries (which parameters they mutate, what they return) computed to a fixed point.
"""
import ast

from sa.index import FuncInfo, ClassInfo, External
from sa.effects import MUTATORS

F, FO, B = 0, 1, 2
NAMES = {F: 'fresh', FO: 'fresh-outer', B: 'borrowed'}

SHARED_STORES = ('var_object_dict', 'results')
COPIERS = ('list', 'sorted', 'tuple', 'dict', 'set', 'reversed', 'copy.copy')
DEEP = ('copy.deepcopy',)
PURE_BUILTINS = ('len', 'range', 'float', 'int', 'abs', 'min', 'max', 'str', 'sum', 'round', 'isinstance', 'print', 'bool',
                 'getattr', 'hasattr', 'setattr', 'type', 'any', 'all', 'repr', 'format', 'id')


class Summary(object):
    def __init__(self, nparams):
        self.mutates = set()  # parameter indices mutated in place (directly or transitively)
        self.returns = None  # list (tuple return) or single: value class int, or ('alias', i)

    def key(self):
        return (tuple(sorted(self.mutates)), repr(self.returns))


def _name(f):
    if isinstance(f, ast.Name):
        return f.id
    if isinstance(f, ast.Attribute) and isinstance(f.value, ast.Name):
        return f.value.id + '.' + f.attr
    return None


class Analyzer(object):
    """Analyse one function body."""

    def __init__(self, ix, func, borrowed_params, summaries, visit_returns_borrowed=False, cls=None, store_params=(),
                 report_param_mutation=True):
        self.ix = ix
        self.func = func  # FuncInfo
        self.sum = summaries
        self.visit_b = visit_returns_borrowed
        self.cls = cls if cls is not None else func.owner
        self.env = {}
        self.origin = {}  # name -> description of why it is borrowed
        self.alias_param = {}  # name -> param index it aliases (for summaries)
        self.findings = []  # (lineno, text, node)
        self.shallow_of = {}  # name -> parameter index whose elements the (fresh) container holds
        self.mutated_params = set()
        self.returns = []
        args = func.node.args
        self.params = [a.arg for a in args.args]
        off = 1 if (func.owner is not None and self.params and self.params[0] in ('self', 'cls')) else 0
        self.param_off = off
        self.report_param_mutation = report_param_mutation
        for i, p in enumerate(self.params[off:]):
            if p in store_params:
                # the interpreter's own dictionary: entries are the caller's objects, the container is not
                self.env[p] = FO
            elif borrowed_params == 'all' or i in borrowed_params:
                self.env[p] = B
                self.origin[p] = 'parameter `%s`' % p
            else:
                self.env[p] = F
            self.alias_param[p] = i
        if args.vararg:
            # the tuple is the callee's, what it holds is the caller's
            self.env[args.vararg.arg] = FO if borrowed_params == 'all' else F

    # ------------------------------------------------------------------ expressions
    def val(self, e):
        if e is None:
            return F
        if isinstance(e, ast.Name):
            return self.env.get(e.id, F)
        if isinstance(e, ast.Constant):
            return F
        if isinstance(e, ast.Attribute):
            if e.attr in SHARED_STORES:
                return B
            if isinstance(e.value, ast.Name) and e.value.id == 'self':
                return F
            # attribute of a borrowed object (node.val ...): scalar configuration
            return F
        if isinstance(e, ast.Subscript):
            base = self.val(e.value)
            if isinstance(e.slice, ast.Slice):
                return FO if base >= FO else F
            return B if base >= FO else F
        if isinstance(e, (ast.List, ast.Tuple, ast.Set)):
            m = max([self.val(x) for x in e.elts] or [F])
            return FO if m >= FO else F
        if isinstance(e, ast.Dict):
            m = max([self.val(x) for x in e.values if x is not None] or [F])
            return FO if m >= FO else F
        if isinstance(e, (ast.ListComp, ast.SetComp, ast.GeneratorExp)):
            saved = dict(self.env)
            for g in e.generators:
                self.bind_iter(g.target, g.iter)
            m = self.val(e.elt)
            self.env = saved
            return FO if m >= FO else F
        if isinstance(e, ast.DictComp):
            return FO
        if isinstance(e, ast.BinOp):
            m = max(self.val(e.left), self.val(e.right))
            if isinstance(e.op, (ast.Add, ast.Mult)):
                return FO if m >= FO else F
            return F
        if isinstance(e, ast.IfExp):
            return max(self.val(e.body), self.val(e.orelse))
        if isinstance(e, ast.BoolOp):
            return max(self.val(v) for v in e.values)
        if isinstance(e, ast.Call):
            return self.call_val(e)
        if isinstance(e, ast.Starred):
            return self.val(e.value)
        return F

    def call_val(self, c):
        r = self.call_result(c)
        if isinstance(r, list):
            return max([x if isinstance(x, int) else B for x in r] or [F])
        return r

    def call_result(self, c):
        """value class, or list of classes for tuple-returning helpers"""
        name = _name(c.func)
        # self.visit(child) in offline visitors: may be the caller's list (visitVariable returns it unchanged)
        if isinstance(c.func, ast.Attribute) and isinstance(c.func.value, ast.Name) and c.func.value.id == 'self':
            if c.func.attr == 'visit' and self.visit_b:
                return B
        if name in DEEP:
            return F
        if name in COPIERS:
            a = max([self.val(x) for x in c.args] or [F])
            return FO if a >= FO else F
        if name in ('zip', 'enumerate'):
            a = max([self.val(x) for x in c.args] or [F])
            return FO if a >= FO else F
        if name in PURE_BUILTINS or (name and name.startswith('math.')):
            return F
        # method of an object: x.copy(), x.pop(), x.get()
        if isinstance(c.func, ast.Attribute):
            recv = self.val(c.func.value)
            if c.func.attr == 'copy':
                return FO if recv >= FO else F
            if c.func.attr in ('pop', 'popleft', 'get', '__getitem__', 'setdefault'):
                return B if recv >= FO else F
            if c.func.attr in ('keys', 'values', 'items', 'fromkeys'):
                return FO if recv >= FO else F
        callee = self.resolve(c)
        if callee is not None and id(callee) in self.sum:
            s = self.sum[id(callee)]
            off = 1 if (callee.owner is not None and isinstance(c.func, ast.Attribute)) else 0
            explicit_self = (callee.owner is not None and isinstance(c.func, ast.Attribute)
                             and isinstance(c.func.value, ast.Name) and c.func.value.id != 'self'
                             and c.args and isinstance(c.args[0], ast.Name) and c.args[0].id == 'self')
            args = c.args[1:] if explicit_self else c.args

            def conv(r):
                if isinstance(r, tuple) and r[0] == 'alias':
                    return self.val(args[r[1]]) if r[1] < len(args) else F
                return r if r is not None else F
            if isinstance(s.returns, list):
                return [conv(r) for r in s.returns]
            return conv(s.returns)
        return F

    def resolve(self, c):
        f = c.func
        if isinstance(f, ast.Attribute) and isinstance(f.value, ast.Name) and f.value.id == 'self' and self.cls is not None:
            return self.ix.resolve_method(self.cls, f.attr)
        if isinstance(f, (ast.Name, ast.Attribute)):
            env = self.func.owner.env if self.func.owner is not None else None
            try:
                ent = self.ix.resolve_expr(self.func.module, f, env)
            except Exception:
                ent = None
            if isinstance(ent, FuncInfo):
                return ent
        return None

    # ------------------------------------------------------------------ binding
    def bind_iter(self, target, it):
        """bind loop/comprehension targets to element classes"""
        # unwrap reversed(list(enumerate(x))) etc.
        base = it
        wrappers = []
        while isinstance(base, ast.Call) and _name(base.func) in ('reversed', 'list', 'enumerate', 'sorted', 'iter', 'tuple') and base.args:
            wrappers.append(_name(base.func))
            base = base.args[0]
        if isinstance(base, ast.Call) and _name(base.func) == 'zip':
            elems = [B if self.val(a) >= FO else F for a in base.args]
            tgt = target
            if 'enumerate' in wrappers and isinstance(target, ast.Tuple) and len(target.elts) == 2:
                self.assign_target(target.elts[0], F)
                tgt = target.elts[1]
            if isinstance(tgt, ast.Tuple) and len(tgt.elts) == len(elems):
                for t, v in zip(tgt.elts, elems):
                    self.assign_target(t, v)
            else:
                self.assign_target(tgt, FO if max(elems or [F]) >= FO else F)
            return
        elem = B if self.val(base) >= FO else F
        # the elements of a parameter's container -- or of a shallow copy of it -- are the caller's objects: a loop variable over them stands
        # for the parameter in the summary (mutating it mutates what the caller handed in)
        root = base
        while isinstance(root, (ast.Subscript,)):
            root = root.value
        pidx = None
        if isinstance(root, ast.Name):
            pidx = self.alias_param.get(root.id)
            if pidx is None:
                pidx = self.shallow_of.get(root.id)
        if 'enumerate' in wrappers and isinstance(target, ast.Tuple) and len(target.elts) == 2:
            self.assign_target(target.elts[0], F)
            self.assign_target(target.elts[1], elem)
            tv = target.elts[1]
        else:
            self.assign_target(target, elem)
            tv = target
        if elem == B and pidx is not None:
            for x in ast.walk(tv):
                if isinstance(x, ast.Name):
                    self.alias_param[x.id] = pidx

    def assign_target(self, t, v, src=None):
        if isinstance(t, ast.Name):
            self.env[t.id] = v
            if v == B and src is not None:
                self.origin[t.id] = src
            if isinstance(src, ast.AST):
                pass
        elif isinstance(t, (ast.Tuple, ast.List)):
            for e in t.elts:
                self.assign_target(e, v)

    # ------------------------------------------------------------------ sinks
    def sink(self, node, obj_expr, how):
        """obj_expr is mutated in place"""
        v = self.val(obj_expr)
        root = obj_expr
        while isinstance(root, (ast.Subscript, ast.Attribute)):
            root = root.value
        rootname = root.id if isinstance(root, ast.Name) else None
        if rootname in self.alias_param and self.alias_param.get(rootname) is not None and self._root_is_param_alias(obj_expr):
            self.mutated_params.add(self.alias_param[rootname])
        if v == B and not self.report_param_mutation and rootname in self.params and self._root_is_param_alias(obj_expr):
            return  # helper: recorded in the summary, judged at its call sites
        if v == B:
            why = self.origin.get(rootname, '')
            self.findings.append((node.lineno, '%s mutates `%s` in place, which is %s%s' % (
                how, ast.unparse(obj_expr), NAMES[B], (' (' + why + ')') if why else ''), node))

    def _root_is_param_alias(self, e):
        # x, x[i], x[i][j] where x aliases a parameter object (not a fresh copy of it)
        root = e
        while isinstance(root, ast.Subscript):
            root = root.value
        return isinstance(root, ast.Name) and self.env.get(root.id, F) == B

    # ------------------------------------------------------------------ statements
    def run(self):
        self.block(self.func.node.body)
        # second pass so that loop-carried aliases are seen
        self.findings = []
        self.returns = []
        self.block(self.func.node.body)
        return self

    def block(self, stmts):
        for st in stmts:
            self.stmt(st)

    def stmt(self, st):
        if isinstance(st, ast.Assign):
            v = self.rhs(st.value)
            for t in st.targets:
                self.store_target(t, v, st)
            # alias bookkeeping for summaries
            if len(st.targets) == 1 and isinstance(st.targets[0], ast.Name):
                tn = st.targets[0].id
                # x = list(p) / p[:] / sorted(p) / copy(p): a fresh container holding p's elements
                sv = st.value
                src = None
                if isinstance(sv, ast.Call) and _name(sv.func) in COPIERS and len(sv.args) == 1 and isinstance(sv.args[0], ast.Name):
                    src = sv.args[0].id
                elif isinstance(sv, ast.Subscript) and isinstance(sv.slice, ast.Slice) and isinstance(sv.value, ast.Name):
                    src = sv.value.id
                elif isinstance(sv, ast.Call) and isinstance(sv.func, ast.Attribute) and sv.func.attr == 'copy' and isinstance(sv.func.value, ast.Name):
                    src = sv.func.value.id
                if src is not None and (self.alias_param.get(src) is not None or self.shallow_of.get(src) is not None) and isinstance(v, int) and v >= FO:
                    self.shallow_of[tn] = self.alias_param.get(src) if self.alias_param.get(src) is not None else self.shallow_of.get(src)
                elif not (isinstance(sv, ast.Name) and sv.id == tn):
                    self.shallow_of.pop(tn, None)
                if isinstance(st.value, ast.Name) and st.value.id in self.alias_param:
                    self.alias_param[tn] = self.alias_param[st.value.id]
                elif tn in self.alias_param and tn not in self.params:
                    self.alias_param.pop(tn, None)
                elif tn in self.params:
                    # parameter rebound to something else: no longer an alias of the caller's object
                    if not (isinstance(st.value, ast.Name) and st.value.id == tn):
                        self.alias_param.pop(tn, None)
                if isinstance(v, int) and v == B:
                    self.origin[tn] = self.describe(st.value)
            return
        if isinstance(st, ast.AugAssign):
            if isinstance(st.target, ast.Name):
                if self.env.get(st.target.id, F) == B and isinstance(st.op, (ast.Add, ast.Mult, ast.BitOr, ast.BitAnd, ast.Sub)):
                    # list += ... / set |= ... extend the object in place (numbers are never B)
                    self.sink(st, st.target, 'augmented assignment `%s`' % ast.unparse(st)[:60])
            elif isinstance(st.target, ast.Subscript):
                self.sink(st, st.target.value, 'item update `%s`' % ast.unparse(st)[:60])
                # `x[i] += y` with a list element extends that element in place
                if isinstance(st.op, (ast.Add, ast.Mult, ast.BitOr, ast.BitAnd)) and not isinstance(st.value, ast.Constant) and self.val(st.target) == B \
                        and self.val(st.value) >= FO:
                    self.sink(st, st.target, 'in-place extension of the element `%s`' % ast.unparse(st)[:60])
            elif isinstance(st.target, ast.Attribute) and st.target.attr in SHARED_STORES:
                pass
            return
        if isinstance(st, ast.Delete):
            for t in st.targets:
                if isinstance(t, ast.Subscript):
                    self.sink(st, t.value, '`%s`' % ast.unparse(st)[:60])
            return
        if isinstance(st, ast.Expr):
            self.expr_effects(st.value, st)
            return
        if isinstance(st, ast.Return):
            if st.value is not None:
                self.expr_effects(st.value, st)
                self.returns.append(st.value)
            return
        if isinstance(st, ast.For):
            self.expr_effects(st.iter, st)
            self.bind_iter(st.target, st.iter)
            self.block(st.body)
            self.block(st.orelse)
            return
        if isinstance(st, ast.While):
            self.expr_effects(st.test, st)
            self.block(st.body)
            self.block(st.orelse)
            return
        if isinstance(st, ast.If):
            self.expr_effects(st.test, st)
            before = dict(self.env)
            alias_before = dict(self.alias_param)
            self.block(st.body)
            a = self.env
            alias_a = self.alias_param
            self.env = dict(before)
            self.alias_param = dict(alias_before)
            self.block(st.orelse)
            b = self.env
            alias_b = self.alias_param
            self.env = {k: max(a.get(k, F), b.get(k, F)) for k in set(a) | set(b)}
            # may-alias: a name that still stands for the caller's object on one branch still may do so after the join
            # (`if cond: x = list(x)` leaves x the caller's list when cond is false)
            merged = dict(alias_a)
            for k, v in alias_b.items():
                merged.setdefault(k, v)
            self.alias_param = merged
            return
        if isinstance(st, ast.Try):
            self.block(st.body)
            for h in st.handlers:
                self.block(h.body)
            self.block(st.orelse)
            self.block(st.finalbody)
            return
        if isinstance(st, ast.With):
            self.block(st.body)
            return

    def describe(self, e):
        if isinstance(e, ast.Call) and isinstance(e.func, ast.Attribute) and e.func.attr == 'visit':
            return 'the result of self.visit(child): for a variable operand it is the caller\'s list itself'
        if isinstance(e, ast.Subscript):
            return 'an entry of `%s`' % ast.unparse(e.value)
        if isinstance(e, ast.Name):
            return self.origin.get(e.id, 'alias of `%s`' % e.id)
        return ast.unparse(e)[:50]

    def rhs(self, e):
        self.expr_effects(e, e)
        if isinstance(e, ast.Call):
            return self.call_result(e)
        return self.val(e)

    def store_target(self, t, v, st):
        if isinstance(t, ast.Name):
            self.env[t.id] = max(v) if isinstance(v, list) else v
            return
        if isinstance(t, (ast.Tuple, ast.List)):
            if isinstance(v, list) and len(v) == len(t.elts):
                for e, x in zip(t.elts, v):
                    self.store_target(e, x, st)
            else:
                vv = max(v) if isinstance(v, list) else v
                # unpacking an FO/B container yields borrowed elements
                for e in t.elts:
                    self.store_target(e, B if vv >= FO else F, st)
            return
        if isinstance(t, ast.Subscript):
            # D[k] = v : mutation of D, unless D is one of the interpreter's own stores (publication is their purpose)
            if isinstance(t.value, ast.Attribute) and t.value.attr in SHARED_STORES:
                return
            self.sink(st, t.value, 'item assignment `%s`' % ast.unparse(t)[:50])
            # a local container of the callee's own that receives the caller's object (or a fresh wrapper around one) now holds borrowed elements
            vv = max(v) if isinstance(v, list) else v
            if isinstance(t.value, ast.Name) and self.env.get(t.value.id, F) == F and isinstance(vv, int) and vv >= FO:
                self.env[t.value.id] = FO
            return
        if isinstance(t, ast.Attribute):
            return

    def expr_effects(self, e, st):
        # comprehension variables are bound while the calls inside the comprehension are judged
        comps = [n for n in ast.walk(e) if isinstance(n, (ast.ListComp, ast.SetComp, ast.GeneratorExp, ast.DictComp))]
        saved_env, saved_alias = None, None
        if comps:
            saved_env, saved_alias = dict(self.env), dict(self.alias_param)
            for c_ in comps:
                for g in c_.generators:
                    self.bind_iter(g.target, g.iter)
        try:
            self._expr_effects(e, st)
        finally:
            if comps:
                self.env, self.alias_param = saved_env, saved_alias

    def _expr_effects(self, e, st):
        for n in ast.walk(e):
            if isinstance(n, ast.Call):
                if isinstance(n.func, ast.Attribute) and n.func.attr in MUTATORS:
                    recv = n.func.value
                    if isinstance(recv, ast.Attribute) and recv.attr in SHARED_STORES:
                        continue  # the interpreter's own dictionaries
                    if isinstance(recv, ast.Name) and recv.id == 'self':
                        continue
                    self.sink(n, recv, 'call `%s`' % ast.unparse(n)[:60])
                    continue
                callee = self.resolve(n)
                if callee is not None and id(callee) in self.sum:
                    s = self.sum[id(callee)]
                    explicit_self = (callee.owner is not None and isinstance(n.func, ast.Attribute)
                                     and isinstance(n.func.value, ast.Name) and n.func.value.id != 'self'
                                     and n.args and isinstance(n.args[0], ast.Name) and n.args[0].id == 'self')
                    args = n.args[1:] if explicit_self else n.args
                    for i in s.mutates:
                        if i < len(args):
                            self.sink(n, args[i], 'call `%s` (the callee mutates its argument %d)' % (ast.unparse(n)[:50], i))

    # ------------------------------------------------------------------ summary
    def summary(self):
        s = Summary(len(self.params))
        s.mutates = set(self.mutated_params)
        rets = []
        for r in self.returns:
            if isinstance(r, ast.Tuple):
                rets.append([self.ret_class(x) for x in r.elts])
            else:
                rets.append(self.ret_class(r))
        if not rets:
            s.returns = F
        elif all(isinstance(r, list) for r in rets) and len(set(len(r) for r in rets)) == 1:
            s.returns = [self.join([r[i] for r in rets]) for i in range(len(rets[0]))]
        else:
            flat = []
            for r in rets:
                flat.extend(r if isinstance(r, list) else [r])
            s.returns = self.join(flat)
        return s

    def ret_class(self, e):
        if isinstance(e, ast.Name) and e.id in self.alias_param and self.env.get(e.id, F) == B:
            return ('alias', self.alias_param[e.id])
        v = self.val(e)
        return v

    @staticmethod
    def join(vals):
        al = [v for v in vals if isinstance(v, tuple)]
        ints = [v for v in vals if isinstance(v, int)]
        if al and not ints and len(set(al)) == 1:
            return al[0]
        if al:
            return B
        return max(ints or [F])


def compute_summaries(ix, funcs, borrowed='all', rounds=6):
    """funcs: iterable of FuncInfo (helpers and methods).  Fixed point over call graph."""
    funcs = list(funcs)
    sums = {id(f): Summary(0) for f in funcs}
    for _ in range(rounds):
        changed = False
        for f in funcs:
            a = Analyzer(ix, f, borrowed, sums).run()
            s = a.summary()
            if s.key() != sums[id(f)].key():
                sums[id(f)] = s
                changed = True
        if not changed:
            break
    return sums
