"""E2 -- dispatch tables of the visitors and classification of the handler each node class reaches."""
import ast

from sa.index import AnalysisError, ClassInfo, External, FuncInfo, dotted_name

NODE_ROOT = ('rtamt.syntax.node.abstract_node', 'AbstractNode')
STRUCTURAL = ('BinaryNode', 'UnaryNode', 'LeafNode', 'AbstractNode')


def node_classes(ix):
    root = ix.find_class(*NODE_ROOT)
    subs = ix.subclasses_of(root, 'rtamt.syntax.node')
    return [c for c in subs if c.name not in STRUCTURAL]


def _isinstance_test(test):
    """``isinstance(node, X)`` -> X expr"""
    if (isinstance(test, ast.Call) and isinstance(test.func, ast.Name) and test.func.id == 'isinstance'
            and len(test.args) == 2):
        return test.args[1]
    return None


def _self_call(expr):
    """``self.m(...)`` -> 'm'"""
    if (isinstance(expr, ast.Call) and isinstance(expr.func, ast.Attribute)
            and isinstance(expr.func.value, ast.Name) and expr.func.value.id == 'self'):
        return expr.func.attr
    return None


def _delegation(ix, cls, owner, call):
    """Recognise ``super(C, self).visit(...)``, ``super().visit(...)``, ``Base.visit(self, ...)``.
    Returns the FuncInfo delegated to, or None."""
    if not (isinstance(call, ast.Call) and isinstance(call.func, ast.Attribute)):
        return None
    name = call.func.attr
    tgt = call.func.value
    if isinstance(tgt, ast.Call) and isinstance(tgt.func, ast.Name) and tgt.func.id == 'super':
        if tgt.args:
            start = ix.resolve_expr(owner.module, tgt.args[0], owner.env)
        else:
            start = owner
        mro = ix.mro(cls)
        idx = None
        for k, c in enumerate(mro):
            if c is start:
                idx = k
        if idx is None:
            raise AnalysisError('super(%s) not on MRO of %s' % (getattr(start, 'name', start), cls.qual))
        for c in mro[idx + 1:]:
            if isinstance(c, ClassInfo) and name in c.methods:
                return c.methods[name]
        return None
    if isinstance(tgt, ast.Name) and tgt.id != 'self':
        ent = ix.resolve_expr(owner.module, tgt, owner.env)
        if isinstance(ent, ClassInfo) and call.args and isinstance(call.args[0], ast.Name) and call.args[0].id == 'self':
            return ix.resolve_method(ent, name)
    return None


class Dispatch(object):
    def __init__(self):
        self.entries = []  # (node ClassInfo, method name, lineno, owner FuncInfo)
        self.chain = []  # FuncInfos of the visit methods traversed
        self.default = None  # 'raise' | 'none'
        self.wrappers = []  # visit methods that wrap a delegated visit (e.g. store results)

    def method_for(self, node_cls, ix):
        for (nc, meth, _, _) in self.entries:
            if ix.is_subclass(node_cls, nc):
                return meth, nc
        return None, None


def dispatch_of(ix, cls, entry='visit'):
    """Ordered isinstance dispatch reached from cls.<entry>, following super()/explicit delegations."""
    d = Dispatch()
    f = ix.resolve_method(cls, entry)
    if f is None:
        raise AnalysisError('%s has no %s method' % (cls.qual, entry))
    seen = set()
    while f is not None:
        if id(f) in seen:
            raise AnalysisError('visit delegation cycle at %s' % f.where)
        seen.add(id(f))
        d.chain.append(f)
        nxt = None
        chain_if = None
        for st in f.node.body:
            if isinstance(st, ast.If) and _isinstance_test(st.test) is not None:
                chain_if = st
                break
        if chain_if is None:
            # wrapper: find a delegation anywhere in the body
            for sub in ast.walk(f.node):
                if isinstance(sub, ast.Call):
                    g = _delegation(ix, cls, f.owner, sub)
                    if g is not None and g.name == entry:
                        nxt = g
                        break
            if nxt is None:
                raise AnalysisError('%s: no isinstance chain and no delegation' % f.where)
            d.wrappers.append(f)
            f = nxt
            continue
        n = chain_if
        while True:
            texpr = _isinstance_test(n.test)
            if texpr is None:
                raise AnalysisError('%s: non-isinstance test in dispatch chain line %d' % (f.where, n.lineno))
            ent = ix.resolve_expr(f.module, texpr, f.owner.env)
            if not isinstance(ent, ClassInfo):
                raise AnalysisError('%s: dispatch test on unresolvable class %s' % (f.where, ast.unparse(texpr)))
            meth = None
            for sub in ast.walk(ast.Module(body=n.body, type_ignores=[])):
                m = _self_call(sub)
                if m:
                    meth = m
                    break
            if meth is None:
                raise AnalysisError('%s: dispatch arm for %s calls no self method' % (f.where, ent.name))
            d.entries.append((ent, meth, n.lineno, f))
            if len(n.orelse) == 1 and isinstance(n.orelse[0], ast.If):
                n = n.orelse[0]
                continue
            # final else
            for st in n.orelse:
                for sub in ast.walk(st):
                    if isinstance(sub, ast.Call):
                        g = _delegation(ix, cls, f.owner, sub)
                        if g is not None:
                            nxt = g
                    if isinstance(sub, ast.Raise) or (_self_call(sub) == 'raise_exception'):
                        d.default = 'raise'
            if not n.orelse and d.default is None:
                d.default = 'none'
            break
        f = nxt
    return d


def shadowing(ix, d):
    """Entries that can never be reached because an earlier test captures their class."""
    out = []
    for i, (nc, meth, line, f) in enumerate(d.entries):
        for (pc, pmeth, _, _) in d.entries[:i]:
            if ix.is_subclass(nc, pc):
                out.append((nc, meth, pc, pmeth))
                break
    return out


# ---------------------------------------------------------------------------------------------------
def first_stmts(func):
    body = list(func.node.body)
    if body and isinstance(body[0], ast.Expr) and isinstance(body[0].value, ast.Constant) and isinstance(body[0].value.value, str):
        body = body[1:]
    return body


def raised_class(ix, func, st):
    """Class entity constructed by a ``raise X(...)`` statement."""
    exc = st.exc
    if exc is None:
        return None
    if isinstance(exc, ast.Call):
        exc = exc.func
    env = func.owner.env if func.owner is not None else None
    return ix.resolve_expr(func.module, exc, env)


def classify(ix, cls, meth_name):
    """-> (category, info, FuncInfo|None)

    categories: missing | reject | fallthrough | compute
    info: for reject the exception entity; for fallthrough the owner class name."""
    f = ix.resolve_method(cls, meth_name)
    if f is None:
        return 'missing', None, None
    body = first_stmts(f)
    if body and isinstance(body[0], ast.Raise):
        return 'reject', raised_class(ix, f, body[0]), f
    if len(body) == 1 and isinstance(body[0], ast.Return) and _self_call(body[0].value) == 'visitChildren':
        return 'fallthrough', f.owner.name, f
    if len(body) == 1 and isinstance(body[0], ast.Expr) and _self_call(body[0].value) == 'visitChildren':
        return 'fallthrough', f.owner.name, f
    if len(body) == 1 and isinstance(body[0], ast.Pass):
        return 'noop', f.owner.name, f
    return 'compute', None, f


def is_rtamt_exception(ix, ent):
    exc = ix.find_class('rtamt.exception.exception', 'RTAMTException')
    return isinstance(ent, ClassInfo) and ix.is_subclass(ent, exc)
