"""E5 -- operator summaries.

An abstract interpreter over *signal terms*: it turns a handler (offline ``visitX``, online ``XOperation``) into a
small normal form when -- and only when -- the handler is written in one of the idioms enumerated below.  Anything
else is ``Unknown`` (never guessed).  No repository code is executed: the interpreter walks the ast of the handler.

Terms (tuples)
    ('x', k, d, fill)   operand k at index t+d; fill = constant used where t+d falls outside the trace (None if d == 0)
    ('c', repr)         constant: 'inf', '-inf' or a number literal
    ('neg', e) ('abs', e) ('sqrt', e) ('exp', e) ('ln', e)
    ('add', a, b)* ('mul', a, b)*   (* commutative: arguments sorted)      ('sub', a, b) ('div', a, b) ('pow', a, b) ('log', a, b)
    ('min', (e...)) ('max', (e...))  flattened, sorted, neutral elements removed
    ('st',)             the carried state of a scan
    ('table', ((key, e)...))  comparison-operator table of a predicate
    ('cfg', name)       constructor/configuration parameter of an operation (never written by update)

Normal forms
    ('pointwise', e)                       out[t] = e
    ('scan', dir, init, out, next)         dir in fwd|bwd; st0 = init; out[t] = out(st, x[t]); st' = next  ('out' if equal)
    ('window', dir, kind, e, lo, hi, fill) kind(min|max) of e over offsets lo..hi (affine in begin/end), fill outside the trace
    ('reject', T) ('fallthrough',) ('unknown', why)
"""
import ast
import re

INF = ('c', 'inf')
NINF = ('c', '-inf')
NAN = ('c', 'nan')


class Unknown(Exception):
    pass


# --------------------------------------------------------------------------------------------- term algebra
def const_of(node):
    """float('inf'), -float('inf'), number literals, float(3)."""
    if isinstance(node, ast.Call) and isinstance(node.func, ast.Name) and node.func.id in ('float', 'int') and len(node.args) == 1 \
            and isinstance(node.args[0], ast.Constant):
        v = node.args[0].value
        if isinstance(v, str):
            v = v.strip().lower().lstrip('+')
            if v in ('inf', 'infinity'):
                return INF
            if v in ('-inf', '-infinity'):
                return NINF
            if v == 'nan':
                return NAN
            return None
        return ('c', repr(float(v)))
    if isinstance(node, ast.Constant) and isinstance(node.value, (int, float)) and not isinstance(node.value, bool):
        return ('c', repr(float(node.value)))
    if isinstance(node, ast.UnaryOp) and isinstance(node.op, ast.USub):
        c = const_of(node.operand)
        if c is not None:
            return neg(c)
    if isinstance(node, ast.UnaryOp) and isinstance(node.op, ast.UAdd):
        return const_of(node.operand)
    if isinstance(node, ast.Attribute) and isinstance(node.value, ast.Name) and node.value.id == 'math' and node.attr == 'inf':
        return INF
    return None


def neg(e):
    if e == INF:
        return NINF
    if e == NINF:
        return INF
    if e[0] == 'c' and e[1] not in ('nan',):
        v = float(e[1])
        return ('c', repr(-v if v != 0 else 0.0))
    if e[0] == 'neg':
        return e[1]
    if e[0] == 'sub' and len(e) == 3:
        # -(a - b) is b - a, exactly (rounding is symmetric)
        return ('sub', e[2], e[1])
    if e[0] in ('min', 'max'):
        # -min(a, b) is max(-a, -b)
        return mk('max' if e[0] == 'min' else 'min', [neg(a) for a in e[1]])
    return ('neg', e)


def _dnf(e):
    """min/max term over atoms -> set of frozensets (max over clauses of min over atoms); +inf / -inf are the top / bottom of the lattice"""
    if e == INF:
        return {frozenset()}
    if e == NINF:
        return set()
    if isinstance(e, tuple) and e and e[0] == 'max':
        out = set()
        for a in e[1]:
            out |= _dnf(a)
        return out
    if isinstance(e, tuple) and e and e[0] == 'min':
        acc = {frozenset()}
        for a in e[1]:
            d = _dnf(a)
            acc = {x | y for x in acc for y in d}
            if len(acc) > 256:
                raise OverflowError
        return acc
    return {frozenset([e])}


def lattice_canon(e):
    """canonical form of a min/max term: the reals under min and max are a distributive lattice, so `min(a, max(b, c))` and
    `max(min(a, b), min(a, c))` are one function; the disjunctive normal form with absorbed clauses is unique over independent atoms"""
    if not (isinstance(e, tuple) and e and e[0] in ('min', 'max')):
        return e
    try:
        d = _dnf(e)
    except OverflowError:
        return e
    d = {c for c in d if not any(o < c for o in d)}         # absorption: max(a, min(a, b)) = a
    if not d:
        return NINF
    if frozenset() in d:
        return INF
    clauses = []
    for c in d:
        atoms = sorted(c, key=repr)
        clauses.append(atoms[0] if len(atoms) == 1 else ('min', tuple(atoms)))
    clauses = sorted(clauses, key=repr)
    return clauses[0] if len(clauses) == 1 else ('max', tuple(clauses))


def mk(op, args):
    args = list(args)
    if op in ('min', 'max'):
        return lattice_canon(_mk_raw(op, args))
    return _mk_raw(op, args)


def _mk_raw(op, args):
    args = list(args)
    if op in ('min', 'max'):
        flat = []
        for a in args:
            if a[0] == op:
                flat.extend(a[1])
            else:
                flat.append(a)
        neutral = INF if op == 'min' else NINF
        absorbing = NINF if op == 'min' else INF
        if absorbing in flat:
            return absorbing
        flat = [a for a in flat if a != neutral]
        flat = sorted(set(flat), key=repr)
        if not flat:
            return neutral
        if len(flat) == 1:
            return flat[0]
        return (op, tuple(flat))
    if op in ('add', 'mul'):
        return (op,) + tuple(sorted(args, key=repr))
    if op == 'neg':
        return neg(args[0])
    return (op,) + tuple(args)


def subst(e, f):
    """bottom-up rewrite: f(node) -> replacement or None"""
    r = f(e)
    if r is not None:
        return r
    if not isinstance(e, tuple):
        return e
    if e and e[0] in ('min', 'max'):
        return mk(e[0], [subst(a, f) for a in e[1]])
    if e and e[0] == 'table':
        return ('table', tuple((k, subst(v, f)) for k, v in e[1]))
    if e and e[0] in ('x', 'c', 'cfg', 'st'):
        return e
    if e and e[0] in ('add', 'mul'):
        return mk(e[0], [subst(a, f) for a in e[1:]])
    return (e[0],) + tuple(subst(a, f) if isinstance(a, tuple) else a for a in e[1:])


def contains(e, pred):
    if pred(e):
        return True
    if isinstance(e, tuple):
        for a in e:
            if isinstance(a, tuple) and contains(a, pred):
                return True
    return False


def show(e):
    if not isinstance(e, tuple):
        return str(e)
    h = e[0]
    if h == 'x':
        nm = 'lr'[e[1]] if e[3] is None and False else 'x%d' % e[1]
        if e[2] == 0:
            return nm + '[t]'
        return '%s[t%+d|%s]' % (nm, e[2], show(e[3]))
    if h == 'c':
        return e[1]
    if h == 'st':
        return 'st'
    if h == 'cfg':
        return 'cfg.' + e[1]
    if h in ('min', 'max'):
        return '%s(%s)' % (h, ', '.join(show(a) for a in e[1]))
    if h == 'table':
        return '{' + ', '.join('%s: %s' % (k, show(v)) for k, v in e[1]) + '}'
    if h in ('pointwise',):
        return 'pointwise ' + show(e[1])
    if h == 'scan':
        return 'scan %s init=%s out=%s next=%s' % (e[1], show(e[2]), show(e[3]), show(e[4]))
    if h == 'window':
        return 'window %s %s of %s over [%s..%s] fill %s' % (e[1], e[2], show(e[3]), e[4], e[5], show(e[6]))
    return '%s(%s)' % (h, ', '.join(show(a) for a in e[1:]))


# --------------------------------------------------------------------------------------------- scalar evaluation
FUNCS = {'abs': 'abs', 'math.sqrt': 'sqrt', 'math.exp': 'exp', 'math.pow': 'pow', 'math.fabs': 'abs'}


def call_name(f):
    if isinstance(f, ast.Name):
        return f.id
    if isinstance(f, ast.Attribute) and isinstance(f.value, ast.Name):
        return f.value.id + '.' + f.attr
    return None


class Scalar(object):
    def __init__(self, env):
        self.env = env

    def ev(self, n):
        c = const_of(n)
        if c is not None:
            return c
        if isinstance(n, ast.Name):
            v = self.env.get(n.id)
            if v is not None and v[0] not in ('LIST', 'BUILD', 'HALF', 'IDX'):
                return v
            raise Unknown('name %s is not a scalar here' % n.id)
        if isinstance(n, ast.UnaryOp) and isinstance(n.op, ast.USub):
            return neg(self.ev(n.operand))
        if isinstance(n, ast.UnaryOp) and isinstance(n.op, ast.UAdd):
            return self.ev(n.operand)
        if isinstance(n, ast.BinOp):
            # `a ** b` is not math.pow(a, b): on two ints it is the exact (unbounded) integer power, math.pow the nearest double (and an
            # OverflowError beyond 1.8e308) -- the four monitors agree on math.pow
            op = {ast.Add: 'add', ast.Sub: 'sub', ast.Mult: 'mul', ast.Div: 'div', ast.Pow: 'powop'}.get(type(n.op))
            if not op:
                raise Unknown('binary operator %s' % type(n.op).__name__)
            return mk(op, [self.ev(n.left), self.ev(n.right)])
        if isinstance(n, ast.Call):
            name = call_name(n.func)
            if n.keywords:
                raise Unknown('keyword call')
            if name in ('min', 'max') and len(n.args) >= 2:
                return mk(name, [self.ev(a) for a in n.args])
            if name == 'math.log':
                args = [self.ev(a) for a in n.args]
                if len(args) == 1:
                    return ('ln', args[0])
                if len(args) == 2:
                    return ('log', args[0], args[1])
            if name in FUNCS:
                args = [self.ev(a) for a in n.args]
                want = 2 if FUNCS[name] == 'pow' else 1
                if len(args) != want:
                    raise Unknown('arity of ' + name)
                return mk(FUNCS[name], args)
            if name == 'float' and len(n.args) == 1:
                inner = self.ev(n.args[0])
                # float() of an *operand* rounds an int sample above 2**53 before the operator sees it (the sibling without the cast divides /
                # compares the exact ints): kept in the normal form.  float() of anything computed is the identity on what it is applied to here.
                if isinstance(inner, tuple) and inner and inner[0] == 'x':
                    return ('cast', 'float', inner)
                return inner
            raise Unknown('call of %s' % (name or ast.unparse(n.func)))
        if isinstance(n, ast.Subscript):
            # L[i] with i the loop index;  pair[1] value component of a dense sample
            if isinstance(n.value, ast.Name):
                base = self.env.get(n.value.id)
                if base is not None and base[0] == 'LIST' and isinstance(n.slice, ast.Name) and self.env.get(n.slice.id) == ('IDX',):
                    return base[1]
                if base is not None and base[0] == 'PAIR' and isinstance(n.slice, ast.Constant):
                    if n.slice.value == 1:
                        return base[1]
                    if n.slice.value == 0:
                        return ('time',)
                if base is not None and base[0] == 'SPLIT':
                    pass
            if isinstance(n.value, ast.Subscript) and isinstance(n.value.value, ast.Name):
                # sample[1][0] after intersect.split: value component is the pair (left, right)
                base = self.env.get(n.value.value.id)
                if base is not None and base[0] == 'PAIR' and isinstance(n.value.slice, ast.Constant) and n.value.slice.value == 1 \
                        and isinstance(base[1], tuple) and base[1][0] == 'pairval' and isinstance(n.slice, ast.Constant):
                    return base[1][1 + n.slice.value]
            raise Unknown('subscript %s' % ast.unparse(n))
        if isinstance(n, ast.Attribute):
            if isinstance(n.value, ast.Name) and n.value.id == 'self':
                k = 'self.' + n.attr
                if k in self.env:
                    return self.env[k]
            raise Unknown('attribute %s' % ast.unparse(n))
        if isinstance(n, ast.IfExp):
            g = self._guarded_neighbour(n)
            if g is not None:
                return g
            # `a if a > b else b` is max(a, b) (min for <): the selection written out
            t = n.test
            if isinstance(t, ast.Compare) and len(t.ops) == 1 and isinstance(t.ops[0], (ast.Gt, ast.GtE, ast.Lt, ast.LtE)):
                l, r = self.ev(t.left), self.ev(t.comparators[0])
                bv, ov = self.ev(n.body), self.ev(n.orelse)
                if l != r and {repr(bv), repr(ov)} == {repr(l), repr(r)}:
                    greater = isinstance(t.ops[0], (ast.Gt, ast.GtE))
                    return mk('max' if (bv == l) == greater else 'min', [l, r])
            raise Unknown('conditional expression')
        raise Unknown(type(n).__name__)


def _guarded_neighbour(self, n):
    """`L[i - 1] if i > 0 else c`  ->  L shifted by -1 with fill c;   `L[i + 1] if i < len(L) - 1 else c`  ->  shifted by +1"""
    test = ast.unparse(n.test).replace(' ', '')
    for body, other, positive in ((n.body, n.orelse, True), (n.orelse, n.body, False)):
        c = const_of(other)
        if c is None or not (isinstance(body, ast.Subscript) and isinstance(body.value, ast.Name) and isinstance(body.slice, ast.BinOp)
                             and isinstance(body.slice.left, ast.Name) and self.env.get(body.slice.left.id) == ('IDX',)
                             and isinstance(body.slice.right, ast.Constant) and body.slice.right.value == 1):
            continue
        base = self.env.get(body.value.id)
        if base is None or base[0] != 'LIST':
            continue
        i, L = body.slice.left.id, body.value.id
        if isinstance(body.slice.op, ast.Sub):
            inside = {'%s>0' % i, '%s>=1' % i, '0<%s' % i, '%s!=0' % i, '1<=%s' % i}
            outside = {'%s==0' % i, '%s<1' % i, '%s<=0' % i, '0==%s' % i}
            d = -1
        elif isinstance(body.slice.op, ast.Add):
            inside = {'%s<len(%s)-1' % (i, L), '%s+1<len(%s)' % (i, L), '%s<=len(%s)-2' % (i, L), '%s!=len(%s)-1' % (i, L), '%s+1!=len(%s)' % (i, L)}
            outside = {'%s==len(%s)-1' % (i, L), '%s>=len(%s)-1' % (i, L), '%s+1>=len(%s)' % (i, L), '%s+1==len(%s)' % (i, L)}
            d = +1
        else:
            continue
        if test in (inside if positive else outside):
            return shift(base[1], d, c)
    return None


Scalar._guarded_neighbour = _guarded_neighbour


# --------------------------------------------------------------------------------------------- comparison tables
def comparison_key(test):
    """``<x>.value == StlComparisonOperator.K.value`` (possibly or-ed) -> [K...]"""
    tests = test.values if isinstance(test, ast.BoolOp) and isinstance(test.op, ast.Or) else [test]
    keys = []
    for t in tests:
        if isinstance(t, ast.Compare) and len(t.ops) == 1 and isinstance(t.ops[0], ast.In) and isinstance(t.comparators[0], (ast.Tuple, ast.List, ast.Set)) \
                and t.comparators[0].elts:
            # `<x>.value in (Op.A.value, Op.B.value)`
            got = []
            for side in t.comparators[0].elts:
                if isinstance(side, ast.Attribute) and side.attr == 'value' and isinstance(side.value, ast.Attribute) \
                        and isinstance(side.value.value, ast.Name) and side.value.value.id.endswith('ComparisonOperator'):
                    got.append(side.value.attr)
                else:
                    return None
            keys += got
            continue
        if not (isinstance(t, ast.Compare) and len(t.ops) == 1 and isinstance(t.ops[0], ast.Eq)):
            return None
        for side in (t.comparators[0], t.left):
            if isinstance(side, ast.Attribute) and side.attr == 'value' and isinstance(side.value, ast.Attribute) \
                    and isinstance(side.value.value, ast.Name) and side.value.value.id.endswith('ComparisonOperator'):
                keys.append(side.value.attr)
                break
        else:
            return None
    return keys


def canon_cmp(k):
    return {'EQUAL': 'EQ'}.get(k, k)


def if_table(ifnode, env, run_branch):
    """if/elif chain on the comparison operator -> {var: ('table', ...)} for the variables every arm assigns."""
    arms = []
    n = ifnode
    while True:
        keys = comparison_key(n.test)
        if keys is None:
            raise Unknown('if-test is not a comparison-operator test: %s' % ast.unparse(n.test)[:60])
        arms.append((keys, n.body))
        if len(n.orelse) == 1 and isinstance(n.orelse[0], ast.If):
            n = n.orelse[0]
            continue
        default = n.orelse
        break
    per_var = {}
    for keys, body in arms:
        loc = dict(env)
        run_branch(body, loc)
        for var, val in loc.items():
            if env.get(var) is not val:
                for k in keys:
                    # the first arm that names an operator takes it; a later arm naming it again is dead code
                    per_var.setdefault(var, {}).setdefault(canon_cmp(k), val)
    default_kind = 'none'
    if default:
        if any(isinstance(s, ast.Raise) for s in default):
            default_kind = 'raise'
        else:
            default_kind = 'value'
    out = {}
    nkeys = len({canon_cmp(k) for ks, _ in arms for k in ks})
    for var, tab in per_var.items():
        if len(tab) == nkeys:
            out[var] = ('table', tuple(sorted(tab.items())))
    return out, default_kind


# --------------------------------------------------------------------------------------------- discrete offline
def visit_child_index(n):
    """``self.visit(node.children[K], ...)`` -> K"""
    if isinstance(n, ast.Call) and isinstance(n.func, ast.Attribute) and n.func.attr == 'visit' and n.args:
        a = n.args[0]
        if isinstance(a, ast.Subscript) and isinstance(a.value, ast.Attribute) and a.value.attr == 'children' \
                and isinstance(a.slice, ast.Constant):
            return a.slice.value
    return None


def _range_form(it):
    src = ast.unparse(it).replace(' ', '')
    m = re.match(r'^range\(min\(len\((\w+)\),len\((\w+)\)\)\)$', src)
    if m:
        # the common prefix of two operand lists, which is what zip() walks
        return 'fwd', m.group(1)
    if src.startswith('range(len(') and src.endswith('))') and src.count(',') == 0:
        return 'fwd', src[len('range(len('):-2]
    if src.startswith('range(len(') and src.endswith(')-1,-1,-1)'):
        return 'bwd', src[len('range(len('):-len(')-1,-1,-1)')]
    return None, None


class OfflineDiscrete(object):
    """Summarise one ``visitX(self, node, *args)`` of the discrete-time offline visitor."""

    def __init__(self, func_node):
        self.f = func_node
        self.env = {}
        self.partial = None

    def run(self):
        body = [s for s in self.f.body if not (isinstance(s, ast.Expr) and isinstance(s.value, ast.Constant))]
        if body and isinstance(body[0], ast.Raise):
            return ('reject', ast.unparse(body[0].exc.func) if isinstance(body[0].exc, ast.Call) else '?')
        for st in body:
            r = self.stmt(st)
            if r is not None:
                return r
        raise Unknown('no return')

    # -- values: ('LIST', e) | ('HALF', e, +1|-1) | ('BUILD',) | ('SCANP', dir, init, out, next) | scalar terms
    def stmt(self, st):
        env = self.env
        if isinstance(st, ast.Assign) and len(st.targets) == 1 and isinstance(st.targets[0], ast.Name):
            tgt = st.targets[0].id
            v = st.value
            k = visit_child_index(v)
            if k is not None:
                env[tgt] = ('LIST', ('x', k, 0, None))
                return None
            if isinstance(v, ast.List) and not v.elts:
                env[tgt] = ('BUILD',)
                return None
            c = const_of(v)
            if c is not None:
                env[tgt] = c
                return None
            if isinstance(v, ast.Subscript) and isinstance(v.value, ast.Name) and isinstance(v.slice, ast.Slice):
                base = env.get(v.value.id)
                if base and base[0] == 'LIST' and v.slice.step is None:
                    lo, hi = v.slice.lower, v.slice.upper
                    if lo is None and hi is not None and ast.unparse(hi) == '-1':
                        env[tgt] = ('HALF', base[1], -1)
                        return None
                    if hi is None and lo is not None and ast.unparse(lo) == '1':
                        env[tgt] = ('HALF', base[1], +1)
                        return None
            if isinstance(v, ast.Subscript) and isinstance(v.value, ast.Name) and v.value.id == 'args' and isinstance(v.slice, ast.Constant):
                env[tgt] = ('len',)
                return None
            rv = self._reversed_of(v)
            if rv is not None:
                env[tgt] = rv
                return None
            lv = self.list_expr(v)
            if lv is not None:
                env[tgt] = lv
                return None
            sh = self.concat_shift(v)
            if sh is not None:
                env[tgt] = sh
                return None
            raise Unknown('assignment %s' % ast.unparse(st)[:70])
        if isinstance(st, ast.Expr) and isinstance(st.value, ast.Call) and isinstance(st.value.func, ast.Attribute) \
                and isinstance(st.value.func.value, ast.Name):
            f = st.value.func
            obj = env.get(f.value.id)
            a = st.value.args
            if obj and obj[0] == 'HALF':
                if f.attr == 'insert' and obj[2] == -1 and len(a) == 2 and ast.unparse(a[0]) == '0' and const_of(a[1]) is not None:
                    env[f.value.id] = ('LIST', shift(obj[1], -1, const_of(a[1])))
                    return None
                if f.attr == 'append' and obj[2] == +1 and len(a) == 1 and const_of(a[0]) is not None:
                    env[f.value.id] = ('LIST', shift(obj[1], +1, const_of(a[0])))
                    return None
            if obj and obj[0] == 'SCANP' and f.attr == 'reverse' and not a:
                flip = {'bwd-pending': 'bwd', 'fwd': 'fwd-reversed', 'bwd': 'bwd-pending', 'fwd-reversed': 'fwd'}
                env[f.value.id] = ('SCANP', flip[obj[1]]) + obj[2:]
                return None
            raise Unknown('statement %s' % ast.unparse(st)[:70])
        if isinstance(st, (ast.Import, ast.ImportFrom)):
            return None
        if isinstance(st, ast.For):
            env.update(self.loop(st))
            return None
        if isinstance(st, ast.Return):
            v = st.value
            rv = self._reversed_of(v)
            if rv is not None:
                return self.finish(rv)
            if isinstance(v, ast.Name):
                return self.finish(env.get(v.id))
            if isinstance(v, ast.BinOp) and isinstance(v.op, ast.Mult) and isinstance(v.left, ast.List) and len(v.left.elts) == 1:
                # [c] * length
                if isinstance(v.right, ast.Name) and env.get(v.right.id) == ('len',):
                    return ('pointwise', self.scalar(env).ev(v.left.elts[0]))
            lv = self.list_expr(v)
            if lv is not None:
                return self.finish(lv)
            sh = self.concat_shift(v)
            if sh is not None:
                return self.finish(sh)
            raise Unknown('return %s' % ast.unparse(v)[:60])
        raise Unknown('%s: %s' % (type(st).__name__, ast.unparse(st)[:60]))

    def scalar(self, env):
        return Scalar(env)

    def _reversed_of(self, v):
        """X[::-1]  /  list(reversed(X))  with X the output of a loop that walked the trace backwards"""
        inner = None
        if isinstance(v, ast.Subscript) and isinstance(v.slice, ast.Slice) and v.slice.lower is None and v.slice.upper is None \
                and v.slice.step is not None and ast.unparse(v.slice.step).replace(' ', '') == '-1' and isinstance(v.value, ast.Name):
            inner = v.value.id
        elif isinstance(v, ast.Call) and call_name(v.func) == 'list' and len(v.args) == 1 and not v.keywords and isinstance(v.args[0], ast.Call) \
                and call_name(v.args[0].func) == 'reversed' and len(v.args[0].args) == 1 and isinstance(v.args[0].args[0], ast.Name):
            inner = v.args[0].args[0].id
        if inner is None:
            return None
        obj = self.env.get(inner)
        if obj and obj[0] == 'SCANP':
            flip = {'bwd-pending': 'bwd', 'fwd': 'fwd-reversed', 'bwd': 'bwd-pending', 'fwd-reversed': 'fwd'}
            return ('SCANP', flip[obj[1]]) + obj[2:]
        return None

    def concat_shift(self, v):
        """[c] + L[:-1]  (previous)   /   L[1:] + [c]  (next)"""
        if not (isinstance(v, ast.BinOp) and isinstance(v.op, ast.Add)):
            return None

        def one_const(e):
            return const_of(e.elts[0]) if isinstance(e, ast.List) and len(e.elts) == 1 else None

        def half(e):
            if isinstance(e, ast.Subscript) and isinstance(e.value, ast.Name) and isinstance(e.slice, ast.Slice) and e.slice.step is None:
                base = self.env.get(e.value.id)
                if base and base[0] == 'LIST':
                    lo, hi = e.slice.lower, e.slice.upper
                    if lo is None and hi is not None and ast.unparse(hi) == '-1':
                        return (base[1], -1)
                    if hi is None and lo is not None and ast.unparse(lo) == '1':
                        return (base[1], +1)
            return None
        c, h = one_const(v.left), half(v.right)
        if c is not None and h is not None and h[1] == -1:
            return ('LIST', shift(h[0], -1, c))
        c, h = one_const(v.right), half(v.left)
        if c is not None and h is not None and h[1] == +1:
            return ('LIST', shift(h[0], +1, c))
        return None

    def finish(self, v):
        if v is None:
            raise Unknown('returned name is not bound by a recognised idiom')
        if v[0] == 'LAZY':
            return ('lazy', self.finish(v[1]))
        if v[0] == 'LIST':
            return ('pointwise', v[1])
        if v[0] == 'SCANP':
            if v[1] == 'bwd-pending':
                # the values are right, the order is not: position t holds the value of position n-1-t
                return ('reversed', canon(('scan', 'bwd') + v[2:]))
            if v[1] == 'fwd-reversed':
                return ('reversed', canon(('scan', 'fwd') + v[2:]))
            return canon(('scan',) + v[1:])
        raise Unknown('returned value is %s' % v[0])

    def list_expr(self, v):
        env = self.env
        if isinstance(v, ast.GeneratorExp):
            # the same values, but as a one-shot iterator: not what the other handlers can take len() / slices / reversed() of
            inner = self.list_expr(ast.copy_location(ast.ListComp(elt=v.elt, generators=v.generators), v))
            return None if inner is None else ('LAZY', inner)
        if isinstance(v, ast.ListComp) and len(v.generators) == 1 and not v.generators[0].ifs:
            g = v.generators[0]
            loc = dict(env)
            if isinstance(g.target, ast.Name) and isinstance(g.iter, ast.Name) and env.get(g.iter.id, (None,))[0] == 'LIST':
                loc[g.target.id] = env[g.iter.id][1]
            elif isinstance(g.target, ast.Tuple) and isinstance(g.iter, ast.Call) and call_name(g.iter.func) == 'zip' \
                    and len(g.target.elts) == len(g.iter.args):
                for t, a in zip(g.target.elts, g.iter.args):
                    if not (isinstance(a, ast.Name) and isinstance(t, ast.Name) and env.get(a.id, (None,))[0] == 'LIST'):
                        return None
                    loc[t.id] = env[a.id][1]
            elif isinstance(g.target, ast.Name) and _range_form(g.iter)[0] == 'fwd':
                loc[g.target.id] = ('IDX',)
            else:
                return None
            return ('LIST', Scalar(loc).ev(v.elt))
        if isinstance(v, ast.Call) and call_name(v.func) == 'list' and len(v.args) == 1 and not v.keywords and isinstance(v.args[0], ast.Call) \
                and call_name(v.args[0].func) in ('itertools.accumulate', 'accumulate'):
            # running max / min: the forward scan whose first output is the first sample (max(x0, -inf))
            a = v.args[0]
            if len(a.args) == 2 and not a.keywords and isinstance(a.args[1], ast.Name) and a.args[1].id in ('min', 'max') \
                    and isinstance(a.args[0], ast.Name) and env.get(a.args[0].id, (None,))[0] == 'LIST':
                op = a.args[1].id
                step = mk(op, [env[a.args[0].id][1], ('st',)])
                return ('SCANP', 'fwd', NINF if op == 'max' else INF, step, step)
            return None
        if isinstance(v, ast.Call) and call_name(v.func) == 'list' and len(v.args) == 1 and isinstance(v.args[0], ast.Call) \
                and call_name(v.args[0].func) == 'map':
            m = v.args[0]
            if len(m.args) == 2 and isinstance(m.args[0], ast.Name) and m.args[0].id in ('min', 'max'):
                z = m.args[1]
                if isinstance(z, ast.Call) and call_name(z.func) == 'zip' and all(isinstance(a, ast.Name) and env.get(a.id, (None,))[0] == 'LIST' for a in z.args):
                    return ('LIST', mk(m.args[0].id, [env[a.id][1] for a in z.args]))
        return None

    def loop(self, st):
        env = self.env
        loc = dict(env)
        direction = 'fwd'
        it = st.iter
        if isinstance(st.target, ast.Tuple) and isinstance(it, ast.Call) and call_name(it.func) == 'zip' and not it.keywords \
                and len(it.args) == len(st.target.elts) and all(isinstance(t, ast.Name) for t in st.target.elts):
            # for l, r in zip(A, B)  /  zip(reversed(A), reversed(B)): all forward or all reversed
            plain = [a for a in it.args if isinstance(a, ast.Name) and env.get(a.id, (None,))[0] == 'LIST']
            rev = [a.args[0] for a in it.args if isinstance(a, ast.Call) and call_name(a.func) == 'reversed' and len(a.args) == 1
                   and isinstance(a.args[0], ast.Name) and env.get(a.args[0].id, (None,))[0] == 'LIST']
            if len(plain) == len(it.args):
                srcs = plain
            elif len(rev) == len(it.args):
                srcs = rev
                direction = 'bwd-pending'
            else:
                raise Unknown('loop over %s' % ast.unparse(it)[:50])
            for t, a in zip(st.target.elts, srcs):
                loc[t.id] = env[a.id][1]
        elif not isinstance(st.target, ast.Name):
            raise Unknown('loop target')
        elif isinstance(it, ast.Name) and env.get(it.id, (None,))[0] == 'LIST':
            loc[st.target.id] = env[it.id][1]
        elif isinstance(it, ast.Call) and call_name(it.func) == 'reversed' and len(it.args) == 1 and isinstance(it.args[0], ast.Name) \
                and env.get(it.args[0].id, (None,))[0] == 'LIST':
            loc[st.target.id] = env[it.args[0].id][1]
            direction = 'bwd-pending'
        elif isinstance(it, ast.Call) and call_name(it.func) == 'range':
            d, lst = _range_form(it)
            if d is None or env.get(lst, (None,))[0] != 'LIST':
                raise Unknown('range form %s' % ast.unparse(it))
            loc[st.target.id] = ('IDX',)
            direction = 'fwd' if d == 'fwd' else 'bwd-pending'
        else:
            raise Unknown('loop over %s' % ast.unparse(it)[:50])
        assigned = set()
        for s in ast.walk(st):
            if isinstance(s, ast.Assign):
                for t in s.targets:
                    if isinstance(t, ast.Name):
                        assigned.add(t.id)
        carried = sorted(k for k in assigned if k in env and isinstance(env[k], tuple) and env[k][0] == 'c')
        init = {k: env[k] for k in carried}
        for k in carried:
            loc[k] = ('stv', k)
        state = {'builder': None, 'out': None}
        self.run_body(st.body, loc, state)
        if state['builder'] is None:
            raise Unknown('loop appends to no list')
        if state.get('prepend'):
            # insert(0, v) in a loop that walks the trace backwards leaves the values in trace order
            if direction != 'bwd-pending':
                raise Unknown('a forward loop that prepends builds the list in reverse')
            direction = 'bwd'
        if env.get(state['builder'], (None,))[0] != 'BUILD':
            raise Unknown('loop appends to a list that is not a fresh []')
        res = {}
        if carried:
            if len(carried) != 1:
                raise Unknown('more than one loop-carried variable')
            k = carried[0]

            def f(e):
                return ('st',) if e == ('stv', k) else None
            res[state['builder']] = ('SCANP', direction, init[k], subst(state['out'], f), subst(loc[k], f))
        else:
            if direction != 'fwd':
                raise Unknown('backward loop without carried state')
            res[state['builder']] = ('LIST', state['out'])
        return res

    def run_body(self, stmts, loc, state):
        for s in stmts:
            if isinstance(s, ast.Assign) and len(s.targets) == 1 and isinstance(s.targets[0], ast.Name):
                loc[s.targets[0].id] = Scalar(loc).ev(s.value)
            elif isinstance(s, ast.Expr) and isinstance(s.value, ast.Call) and isinstance(s.value.func, ast.Attribute) \
                    and s.value.func.attr == 'append' and isinstance(s.value.func.value, ast.Name) and len(s.value.args) == 1:
                if state['builder'] is not None:
                    raise Unknown('two appends in one loop body')
                state['builder'] = s.value.func.value.id
                state['out'] = Scalar(loc).ev(s.value.args[0])
            elif isinstance(s, ast.Expr) and isinstance(s.value, ast.Call) and isinstance(s.value.func, ast.Attribute) \
                    and s.value.func.attr == 'insert' and isinstance(s.value.func.value, ast.Name) and len(s.value.args) == 2 \
                    and isinstance(s.value.args[0], ast.Constant) and s.value.args[0].value == 0 and not isinstance(s.value.args[0].value, bool):
                if state['builder'] is not None:
                    raise Unknown('two appends in one loop body')
                state['builder'] = s.value.func.value.id
                state['out'] = Scalar(loc).ev(s.value.args[1])
                state['prepend'] = True
            elif isinstance(s, ast.If):
                if comparison_key(s.test) is not None:
                    def run_branch(body, l2):
                        for q in body:
                            if isinstance(q, ast.Assign) and len(q.targets) == 1 and isinstance(q.targets[0], ast.Name):
                                l2[q.targets[0].id] = Scalar(l2).ev(q.value)
                            elif isinstance(q, ast.Raise):
                                pass
                            else:
                                raise Unknown('statement in comparison arm')
                    tabs, default_kind = if_table(s, loc, run_branch)
                    if not tabs:
                        raise Unknown('comparison table assigns no common variable')
                    loc.update(tabs)
                    state['table_default'] = default_kind
                elif len(s.body) == 1 and isinstance(s.body[0], ast.Raise) and not s.orelse:
                    self.partial = ast.unparse(s.test)
                else:
                    raise Unknown('conditional in loop body: %s' % ast.unparse(s.test)[:50])
            else:
                raise Unknown('loop statement %s' % ast.unparse(s)[:60])


def shift(e, d, fill):
    """term e (at t) moved to t+d, with fill outside the trace"""
    def f(x):
        if isinstance(x, tuple) and x and x[0] == 'x':
            if x[2] != 0:
                raise Unknown('nested shift')
            return ('x', x[1], d, fill)
        return None
    if e[0] == 'x' and e[2] == 0:
        return ('x', e[1], d, fill)
    # a shifted compound: fill applies to the whole expression -- only plain operands are supported
    raise Unknown('shift of a compound expression')


def canon(s):
    """scan canonicalisation: next == out -> 'out'; next == the operand itself -> pointwise over the shifted operand"""
    if s[0] != 'scan':
        return s
    _, d, init, out, nxt = s
    if nxt == out:
        return ('scan', d, init, out, 'out')
    if isinstance(nxt, tuple) and nxt[0] == 'x' and nxt[2] == 0:
        sh = ('x', nxt[1], -1 if d == 'fwd' else 1, init)

        def f(e):
            return sh if e == ('st',) else None
        return ('pointwise', subst(out, f))
    return ('scan', d, init, out, nxt)


# --------------------------------------------------------------------------------------------- discrete online
class OnlineDiscrete(object):
    """Summarise an operation class: ``__init__`` gives the initial state, straight-line ``update`` the step."""

    def __init__(self, init_node, update_node, reset_node=None):
        self.i = init_node
        self.u = update_node
        self.r = reset_node
        self.partial = None
        self.table_default = None

    def run(self):
        env = {}
        ctor = list(self.i.body) if self.i is not None else []
        # `self.reset()` in the constructor: the reset body is the constructor's tail (unless reset is itself `self.__init__()`)
        flat = []
        for st in ctor:
            if isinstance(st, ast.Expr) and isinstance(st.value, ast.Call) and ast.unparse(st.value) == 'self.reset()' and self.r is not None \
                    and 'self.__init__' not in ast.unparse(self.r) and 'self.reset' not in ast.unparse(self.r):
                flat += list(self.r.body)
            else:
                flat.append(st)
        for st in flat:
            if isinstance(st, ast.Assign) and len(st.targets) == 1 and isinstance(st.targets[0], ast.Attribute) \
                    and isinstance(st.targets[0].value, ast.Name) and st.targets[0].value.id == 'self':
                c = const_of(st.value)
                name = 'self.' + st.targets[0].attr
                if c is not None:
                    env[name] = c
                elif isinstance(st.value, ast.Name):
                    env[name] = ('cfg', st.value.id)
                else:
                    raise Unknown('constructor statement %s' % ast.unparse(st)[:50])
            elif isinstance(st, (ast.Pass, ast.Return)):
                pass
            elif isinstance(st, ast.Expr) and isinstance(st.value, ast.Constant):
                pass
            else:
                raise Unknown('constructor statement %s' % ast.unparse(st)[:50])
        up = self.u
        params = [a.arg for a in up.args.args[1:]]
        loc = {}
        states = sorted(k for k, v in env.items() if v[0] == 'c')
        written = set()
        for st in ast.walk(up):
            if isinstance(st, ast.Assign):
                for t0 in st.targets:
                    for t in (t0.elts if isinstance(t0, (ast.Tuple, ast.List)) else [t0]):
                        if isinstance(t, ast.Attribute) and isinstance(t.value, ast.Name) and t.value.id == 'self':
                            written.add('self.' + t.attr)
        states = [k for k in states if k in written]
        for k, v in env.items():
            loc[k] = ('stv', k) if k in states else v
        for w in written:
            if w not in env:
                raise Unknown('update writes %s which the constructor does not initialise' % w)
            if env[w][0] != 'c':
                raise Unknown('update writes configuration attribute %s' % w)
        for i, p in enumerate(params):
            loc[p] = ('x', i, 0, None)
        ret = None
        nxt = {}
        for st in up.body:
            if isinstance(st, ast.Expr) and isinstance(st.value, ast.Constant):
                continue
            if isinstance(st, ast.Assign) and len(st.targets) == 1 and isinstance(st.targets[0], ast.Tuple) and isinstance(st.value, ast.Tuple) \
                    and len(st.targets[0].elts) == len(st.value.elts):
                # a, self.s = self.s, x : every right-hand side is evaluated before any store
                vals = [Scalar(loc).ev(v) for v in st.value.elts]
                for t, v in zip(st.targets[0].elts, vals):
                    if isinstance(t, ast.Name):
                        loc[t.id] = v
                    elif isinstance(t, ast.Attribute) and isinstance(t.value, ast.Name) and t.value.id == 'self':
                        nxt['self.' + t.attr] = loc['self.' + t.attr] = v
                    else:
                        raise Unknown('update assignment target')
            elif isinstance(st, ast.Assign) and len(st.targets) == 1:
                t = st.targets[0]
                if isinstance(t, ast.Name):
                    loc[t.id] = Scalar(loc).ev(st.value)
                elif isinstance(t, ast.Attribute) and isinstance(t.value, ast.Name) and t.value.id == 'self':
                    # a later read of the attribute sees the value just stored
                    nxt['self.' + t.attr] = loc['self.' + t.attr] = Scalar(loc).ev(st.value)
                else:
                    raise Unknown('update assignment target')
            elif isinstance(st, ast.If) and not st.orelse and len(st.body) == 1 and self._guarded_store(st, loc) is not None:
                k, v = self._guarded_store(st, loc)
                nxt[k] = loc[k] = v
            elif isinstance(st, ast.Return):
                if st.value is None:
                    raise Unknown('bare return')
                ret = Scalar(loc).ev(st.value)
                break
            elif isinstance(st, ast.If) and comparison_key(st.test) is not None:
                def run_branch(body, l2):
                    for q in body:
                        if isinstance(q, ast.Assign) and len(q.targets) == 1 and isinstance(q.targets[0], ast.Name):
                            l2[q.targets[0].id] = Scalar(l2).ev(q.value)
                        elif isinstance(q, ast.Raise):
                            pass
                        else:
                            raise Unknown('statement in comparison arm')
                tabs, self.table_default = if_table(st, loc, run_branch)
                if not tabs:
                    raise Unknown('comparison table assigns no common variable')
                loc.update(tabs)
            elif isinstance(st, ast.If) and len(st.body) == 1 and isinstance(st.body[0], ast.Raise) and not st.orelse:
                self.partial = ast.unparse(st.test)
            elif isinstance(st, ast.Expr) and isinstance(st.value, ast.Call) and call_name(st.value.func) == 'print':
                pass
            else:
                raise Unknown('update statement %s' % ast.unparse(st)[:60])
        if ret is None:
            raise Unknown('update returns nothing')
        if not states:
            if contains(ret, lambda e: isinstance(e, tuple) and e[:1] == ('stv',)):
                raise Unknown('state read but never written')
            return ('pointwise', ret)
        if len(states) != 1:
            raise Unknown('more than one state attribute')
        k = states[0]

        def f(e):
            return ('st',) if e == ('stv', k) else None
        return canon(('scan', 'fwd', env[k], subst(ret, f), subst(nxt.get(k, ('stv', k)), f)))


def _guarded_store(self, st, loc):
    """`if a > self.s: self.s = a`  ->  ('self.s', max(a, s))   (min for <): the running extremum written as a guarded store"""
    t, b = st.test, st.body[0]
    if not (isinstance(t, ast.Compare) and len(t.ops) == 1 and isinstance(t.ops[0], (ast.Gt, ast.GtE, ast.Lt, ast.LtE))):
        return None
    if not (isinstance(b, ast.Assign) and len(b.targets) == 1 and isinstance(b.targets[0], ast.Attribute) and isinstance(b.targets[0].value, ast.Name)
            and b.targets[0].value.id == 'self'):
        return None
    k = 'self.' + b.targets[0].attr
    try:
        l, r = Scalar(loc).ev(t.left), Scalar(loc).ev(t.comparators[0])
        v = Scalar(loc).ev(b.value)
        old = loc.get(k)
    except Unknown:
        return None
    if old is None or {repr(l), repr(r)} != {repr(v), repr(old)} or v == old:
        return None
    greater = isinstance(t.ops[0], (ast.Gt, ast.GtE))
    # the stored value is the left operand of `>`  -> the larger of the two survives
    return k, mk('max' if (v == l) == greater else 'min', [v, old])


OnlineDiscrete._guarded_store = _guarded_store


def summarize_offline_discrete(func_node):
    try:
        o = OfflineDiscrete(func_node)
        r = o.run()
        return r, o.partial
    except Unknown as e:
        return ('unknown', str(e)), None


def summarize_online_discrete(cls_info, ix):
    init = ix.resolve_method(cls_info, '__init__')
    up = ix.resolve_method(cls_info, 'update')
    rs = ix.resolve_method(cls_info, 'reset')
    if up is None:
        return ('unknown', 'no update method'), None
    try:
        o = OnlineDiscrete(init.node if init is not None and init.owner.module.name.startswith('rtamt.semantics') and init.owner is cls_info else
                           (init.node if init is not None and init.owner is not None and init.owner.name != 'AbstractOnlineOperation' else None), up.node,
                           rs.node if rs is not None and rs.owner is cls_info else None)
        r = o.run()
        return r, o.partial
    except Unknown as e:
        return ('unknown', str(e)), None


# --------------------------------------------------------------------------------------------- dense time
class DenseLoop(object):
    """Summarise a dense-time per-sample loop: the *value* component of the emitted samples as a term over the value
    of the current input sample and one carried state.  Compression (`if out != prev ...`) and the time component are
    not part of the summary -- the property leaves merging of equal samples unconstrained."""

    def __init__(self, func_node, operand_names=None, pair_of_values=False):
        self.f = func_node
        self.partial = None
        self.operands = operand_names
        self.table_default = None
        self.pair_of_values = pair_of_values

    def run(self):
        env = {}
        body = [s for s in self.f.body if not (isinstance(s, ast.Expr) and isinstance(s.value, ast.Constant))]
        if body and isinstance(body[0], ast.Raise):
            return ('reject', '?')
        # `[E for T in S]` (returned or bound) is the loop `out = []; for T in S: out.append(E)`
        flat = []
        for st in body:
            comp, name = None, None
            if isinstance(st, ast.Return) and isinstance(st.value, ast.ListComp):
                comp, name = st.value, '__comp'
            elif isinstance(st, ast.Assign) and len(st.targets) == 1 and isinstance(st.targets[0], ast.Name) and isinstance(st.value, ast.ListComp):
                comp, name = st.value, st.targets[0].id
            if comp is not None and len(comp.generators) == 1 and not comp.generators[0].ifs:
                g = comp.generators[0]
                init = ast.Assign(targets=[ast.Name(id=name, ctx=ast.Store())], value=ast.List(elts=[], ctx=ast.Load()))
                app = ast.Expr(value=ast.Call(func=ast.Attribute(value=ast.Name(id=name, ctx=ast.Load()), attr='append', ctx=ast.Load()), args=[comp.elt], keywords=[]))
                lp = ast.For(target=g.target, iter=g.iter, body=[app], orelse=[])
                new_stmts = [init, lp] + ([ast.Return(value=ast.Name(id=name, ctx=ast.Load()))] if isinstance(st, ast.Return) else [])
                for q in new_stmts:
                    ast.copy_location(q, st)
                    ast.fix_missing_locations(q)
                flat += new_stmts
            else:
                flat.append(st)
        body = flat
        lists = {}
        loop = None
        for st in body:
            if isinstance(st, ast.Assign) and len(st.targets) == 1:
                t = st.targets[0]
                c = const_of(st.value)
                key = t.id if isinstance(t, ast.Name) else ('self.' + t.attr if isinstance(t, ast.Attribute) and isinstance(t.value, ast.Name) and t.value.id == 'self' else None)
                if key and c is not None:
                    env[key] = c
                    continue
                if isinstance(t, ast.Name) and isinstance(st.value, ast.List) and not st.value.elts:
                    lists[t.id] = True
                    continue
                if isinstance(t, ast.Name):
                    k = visit_child_index(st.value)
                    if k is not None:
                        env[t.id] = ('SIG', k)
                        continue
                    if isinstance(st.value, ast.Name) and env.get(st.value.id, (None,))[0] == 'SIG':
                        env[t.id] = env[st.value.id]
                        continue
                    env[t.id] = ('OPAQUE', ast.unparse(st.value)[:40])
                    continue
                if isinstance(t, ast.Tuple):
                    for e in t.elts:
                        if isinstance(e, ast.Name):
                            env[e.id] = ('OPAQUE', 'tuple')
                    if self.pair_of_values and isinstance(t.elts[0], ast.Name):
                        env[t.elts[0].id] = ('SPLIT',)
                    continue
            if isinstance(st, ast.For):
                if loop is not None:
                    raise Unknown('more than one loop')
                loop = st
                continue
            if isinstance(st, ast.Return):
                continue
            if isinstance(st, ast.Expr):
                continue
            raise Unknown('statement %s' % ast.unparse(st)[:50])
        if loop is None:
            raise Unknown('no per-sample loop')
        # iteration: for i in S / for i, s in enumerate(S) / reversed(list(enumerate(S)))
        it = loop.iter
        direction = 'fwd'
        wraps = []
        while isinstance(it, ast.Call) and isinstance(it.func, ast.Name) and it.func.id in ('reversed', 'list', 'enumerate') and it.args:
            wraps.append(it.func.id)
            it = it.args[0]
        if 'reversed' in wraps:
            direction = 'bwd'
        if not isinstance(it, ast.Name):
            raise Unknown('loop over %s' % ast.unparse(it)[:40])
        params = [a.arg for a in self.f.args.args]
        src = env.get(it.id)
        if src is not None and src[0] == 'SIG':
            operand = ('x', src[1], 0, None)
        elif it.id in params:
            operand = ('x', [p for p in params if p != 'self'].index(it.id), 0, None)
        elif src is not None and src[0] == 'SPLIT':
            operand = ('pairval', ('x', 0, 0, None), ('x', 1, 0, None))
        elif src is not None and src[0] == 'OPAQUE' and self.operands is not None:
            operand = self.operands
        else:
            raise Unknown('loop source %s' % it.id)
        tgt = loop.target
        if 'enumerate' in wraps:
            if not (isinstance(tgt, ast.Tuple) and len(tgt.elts) == 2):
                raise Unknown('enumerate target')
            pairname = tgt.elts[1]
            idxname = tgt.elts[0].id
        else:
            pairname = tgt
            idxname = None
        loc = dict((k, v) for k, v in env.items() if isinstance(v, tuple) and v[0] == 'c')
        if isinstance(pairname, ast.Name):
            pairname = pairname.id
        if isinstance(pairname, str):
            loc[pairname] = ('PAIR', operand)
        elif isinstance(pairname, (ast.Tuple, ast.List)) and len(pairname.elts) == 2 and all(isinstance(e, ast.Name) for e in pairname.elts):
            # for time, value in S: the sample taken apart by the loop header
            loc[pairname.elts[0].id] = ('time',)
            loc[pairname.elts[1].id] = operand
        else:
            raise Unknown('loop target %s' % ast.unparse(tgt)[:40])
        if idxname:
            loc[idxname] = ('IDX',)
        # carried state: constants assigned before the loop and reassigned inside it
        assigned = set()
        for s in ast.walk(loop):
            if isinstance(s, ast.Assign):
                for t in s.targets:
                    if isinstance(t, ast.Name):
                        assigned.add(t.id)
                    elif isinstance(t, ast.Attribute) and isinstance(t.value, ast.Name) and t.value.id == 'self':
                        assigned.add('self.' + t.attr)
        carried = sorted(k for k in assigned if k in env and env[k][0] == 'c')
        for k in carried:
            loc[k] = ('stv', k)
        out = {'v': None}
        self._body(loop.body, loc, out, lists)
        if out['v'] is None:
            raise Unknown('loop emits no sample')
        # drop carried variables that only serve compression (not read by the emitted value or by another state)
        def reads(e, k):
            return contains(e, lambda x: x == ('stv', k))
        real = [k for k in carried if reads(out['v'], k) or any(reads(loc.get(j, ()), k) for j in carried if j != k and reads(out['v'], j))]
        if not real:
            if direction == 'bwd':
                pass
            return ('pointwise', out['v'])
        if len(real) != 1:
            raise Unknown('more than one carried state')
        k = real[0]

        def f(e):
            return ('st',) if e == ('stv', k) else None
        return canon(('scan', direction, env[k], subst(out['v'], f), subst(loc[k], f)))

    def _body(self, stmts, loc, out, lists):
        for s in stmts:
            if isinstance(s, ast.Assign) and len(s.targets) == 1 and isinstance(s.targets[0], ast.Tuple) and len(s.targets[0].elts) == 2 \
                    and isinstance(s.value, ast.Name) and loc.get(s.value.id, (None,))[0] == 'PAIR':
                # t, v = sample   /   t, (l, r) = sample   (a sample of the split merge carries the pair of operand values)
                base = loc[s.value.id][1]
                t0, t1 = s.targets[0].elts
                if isinstance(t0, ast.Name):
                    loc[t0.id] = ('time',)
                if isinstance(t1, ast.Name):
                    loc[t1.id] = base
                elif isinstance(t1, ast.Tuple) and len(t1.elts) == 2 and isinstance(base, tuple) and base[0] == 'pairval' and all(isinstance(x, ast.Name) for x in t1.elts):
                    loc[t1.elts[0].id] = base[1]
                    loc[t1.elts[1].id] = base[2]
                else:
                    raise Unknown('loop assignment target')
                continue
            if isinstance(s, ast.Assign) and len(s.targets) == 1:
                t = s.targets[0]
                key = t.id if isinstance(t, ast.Name) else ('self.' + t.attr if isinstance(t, ast.Attribute) and isinstance(t.value, ast.Name) and t.value.id == 'self' else None)
                if key is None:
                    raise Unknown('loop assignment target')
                try:
                    loc[key] = Scalar(loc).ev(s.value)
                except Unknown:
                    if isinstance(s.value, (ast.List, ast.Tuple)):
                        loc[key] = ('SAMPLE', s.value)
                    else:
                        raise
            elif isinstance(s, ast.Expr) and isinstance(s.value, ast.Call) and isinstance(s.value.func, ast.Attribute) \
                    and s.value.func.attr in ('append', 'insert') and isinstance(s.value.func.value, ast.Name):
                a = s.value.args[-1]
                if isinstance(a, ast.Name) and loc.get(a.id, (None,))[0] == 'SAMPLE':
                    a = loc[a.id][1]
                if isinstance(a, (ast.List, ast.Tuple)) and len(a.elts) == 2:
                    v = Scalar(loc).ev(a.elts[1])
                    if out['v'] is not None and out['v'] != v:
                        raise Unknown('two different emitted values')
                    out['v'] = v
                else:
                    raise Unknown('emitted sample is not a [time, value] pair')
            elif isinstance(s, ast.Expr) and isinstance(s.value, ast.Call) and isinstance(s.value.func, ast.Attribute) and s.value.func.attr == 'pop':
                continue  # compression of the output list
            elif isinstance(s, ast.If):
                keys = comparison_key(s.test)
                if keys is not None:
                    def run_branch(body, l2):
                        for q in body:
                            if isinstance(q, ast.Assign) and len(q.targets) == 1 and isinstance(q.targets[0], ast.Name):
                                try:
                                    l2[q.targets[0].id] = Scalar(l2).ev(q.value)
                                except Unknown:
                                    l2[q.targets[0].id] = ('opaque', ast.unparse(q.value)[:30])
                            elif isinstance(q, ast.Raise):
                                pass
                            else:
                                raise Unknown('statement in comparison arm')
                    tabs, self.table_default = if_table(s, loc, run_branch)
                    loc.update(tabs)
                elif len(s.body) == 1 and isinstance(s.body[0], ast.Raise) and not s.orelse:
                    self.partial = ast.unparse(s.test)
                else:
                    # compression guard: only emission / pop statements inside, no value assignment
                    inner = list(s.body) + list(s.orelse)
                    if all(isinstance(q, ast.Expr) for q in inner):
                        self._body(inner, loc, out, lists)
                    else:
                        raise Unknown('conditional assignment in loop: %s' % ast.unparse(s.test)[:40])
            else:
                raise Unknown('loop statement %s' % ast.unparse(s)[:50])


def summarize_dense(func_node, operands=None, pair_of_values=False):
    try:
        d = DenseLoop(func_node, operands, pair_of_values)
        r = d.run()
        return r, d.partial
    except Unknown as e:
        return ('unknown', str(e)), None


def binary_function_term(func_node):
    """``def f(a, b): return <expr>`` -> term over x0, x1"""
    if len(func_node.args.args) == 2 and len(func_node.body) == 1 and isinstance(func_node.body[0], ast.Return):
        a, b = [x.arg for x in func_node.args.args]
        try:
            return Scalar({a: ('x', 0, 0, None), b: ('x', 1, 0, None)}).ev(func_node.body[0].value)
        except Unknown:
            return None
    return None
