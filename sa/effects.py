"""Per-method effects on ``self``: attributes written, mutated in place (directly or through a local alias),
read; used by R-STATE, R-PURE, R-ATTR."""
import ast

from sa.index import unmangle

MUTATORS = ('append', 'extend', 'insert', 'pop', 'remove', 'reverse', 'sort', 'clear', 'update', 'add', 'discard',
            'popleft', 'appendleft', 'setdefault', 'rotate', 'extendleft', 'popitem', '__setitem__', '__delitem__')


_OWNER = [None]   # class whose method is being analysed (name mangling of self.__x depends on it)


def _attr_name(attr):
    """``self.__x`` written in class C is ``_C__x``: it backs property x only if C itself defines that property"""
    if attr.startswith('__') and not attr.endswith('__'):
        owner = _OWNER[0]
        if owner is None or attr[2:] in getattr(owner, 'properties', {}):
            return attr[2:]
        return '_%s%s' % (owner.name.split('[')[0].lstrip('_'), attr)
    return attr


def self_loc(e, selfname='self'):
    """``self.a`` -> 'a'; ``self.a[0]`` -> 'a[0]'; ``self.a[i][j]`` -> 'a[i][j]'; else None."""
    subs = []
    while isinstance(e, ast.Subscript):
        subs.append(ast.unparse(e.slice))
        e = e.value
    if isinstance(e, ast.Attribute) and isinstance(e.value, ast.Name) and e.value.id == selfname:
        return _attr_name(e.attr) + ''.join('[%s]' % s for s in reversed(subs))
    return None


def base_attr(loc):
    return loc.split('[')[0]


class Effects(object):
    def __init__(self):
        self.writes = {}  # attr -> [value expr or None]  (rebinding self.attr = v)
        self.mutations = {}  # location -> [ast node]  (in-place change of the object held)
        self.reads = {}  # attr -> [ast node]
        self.self_calls = {}  # method name -> [Call]
        self.aliases = {}  # local name -> location

    def written_attrs(self):
        return set(self.writes) | {base_attr(l) for l in self.mutations}


def method_effects(func_node, owner=None):
    """func_node: ast.FunctionDef, or a FuncInfo (then its class decides how ``self.__x`` is mangled)"""
    if hasattr(func_node, 'node') and hasattr(func_node, 'owner'):
        owner = func_node.owner
        func_node = func_node.node
    prev = _OWNER[0]
    _OWNER[0] = owner
    try:
        return _method_effects(func_node)
    finally:
        _OWNER[0] = prev


def _method_effects(func_node):
    selfname = func_node.args.args[0].arg if func_node.args.args else 'self'
    ef = Effects()

    def note_mut(loc, node):
        ef.mutations.setdefault(loc, []).append(node)

    # first pass: aliases  name = self.attr / name = self.attr[k]
    for st in ast.walk(func_node):
        if isinstance(st, ast.Assign) and len(st.targets) == 1 and isinstance(st.targets[0], ast.Name):
            loc = self_loc(st.value, selfname)
            if loc is not None:
                ef.aliases[st.targets[0].id] = loc

    def target(t, value):
        if isinstance(t, (ast.Tuple, ast.List)):
            for e in t.elts:
                target(e, None)
            return
        if isinstance(t, ast.Attribute) and isinstance(t.value, ast.Name) and t.value.id == selfname:
            ef.writes.setdefault(_attr_name(t.attr), []).append(value)
            return
        if isinstance(t, ast.Subscript):
            loc = self_loc(t.value, selfname)
            if loc is not None:
                note_mut(loc, t)
                return
            if isinstance(t.value, ast.Name) and t.value.id in ef.aliases:
                note_mut(ef.aliases[t.value.id], t)
            return
        if isinstance(t, ast.Attribute):
            # self.a.b = v   mutates the object in a
            loc = self_loc(t.value, selfname)
            if loc is not None:
                note_mut(loc, t)

    for st in ast.walk(func_node):
        if isinstance(st, ast.Assign):
            for t in st.targets:
                target(t, st.value)
        elif isinstance(st, ast.AugAssign):
            if isinstance(st.target, ast.Attribute) and isinstance(st.target.value, ast.Name) and st.target.value.id == selfname:
                ef.writes.setdefault(_attr_name(st.target.attr), []).append(None)
            else:
                target(st.target, None)
                if isinstance(st.target, ast.Name) and st.target.id in ef.aliases:
                    note_mut(ef.aliases[st.target.id], st)  # list += ... mutates in place
        elif isinstance(st, ast.AnnAssign) and st.value is not None:
            target(st.target, st.value)
        elif isinstance(st, ast.Delete):
            for t in st.targets:
                if isinstance(t, ast.Subscript):
                    loc = self_loc(t.value, selfname)
                    if loc is not None:
                        note_mut(loc, t)
                    elif isinstance(t.value, ast.Name) and t.value.id in ef.aliases:
                        note_mut(ef.aliases[t.value.id], t)
                elif isinstance(t, ast.Attribute) and isinstance(t.value, ast.Name) and t.value.id == selfname:
                    ef.writes.setdefault(_attr_name(t.attr), []).append(None)
        elif isinstance(st, ast.Call) and isinstance(st.func, ast.Attribute):
            recv = st.func.value
            if st.func.attr in MUTATORS:
                loc = self_loc(recv, selfname)
                if loc is not None:
                    note_mut(loc, st)
                elif isinstance(recv, ast.Name) and recv.id in ef.aliases:
                    note_mut(ef.aliases[recv.id], st)
                elif isinstance(recv, ast.Subscript) and isinstance(recv.value, ast.Name) and recv.value.id in ef.aliases:
                    note_mut(ef.aliases[recv.value.id] + '[%s]' % ast.unparse(recv.slice), st)
            if isinstance(recv, ast.Name) and recv.id == selfname:
                ef.self_calls.setdefault(st.func.attr, []).append(st)
        if isinstance(st, ast.Attribute) and isinstance(st.ctx, ast.Load) and isinstance(st.value, ast.Name) and st.value.id == selfname:
            ef.reads.setdefault(_attr_name(st.attr), []).append(st)
    return ef


def transitive_effects(ix, cls, meth_name, _seen=None):
    """Effects of cls.meth including self-method calls resolved on the MRO (excluding dispatch-style visit)."""
    _seen = _seen if _seen is not None else set()
    f = ix.resolve_method(cls, meth_name)
    total = Effects()
    if f is None or (id(f)) in _seen:
        return total
    _seen.add(id(f))
    ef = method_effects(f)
    _merge(total, ef)
    for name in ef.self_calls:
        if name in cls_property_names(ix, cls):
            continue
        sub = transitive_effects(ix, cls, name, _seen)
        _merge(total, sub)
    # calls that reach a method of a base class by name: super().m(..), super(C, self).m(..), Base.m(self, ..)
    from sa.index import ClassInfo, FuncInfo
    for c in ast.walk(f.node):
        if not (isinstance(c, ast.Call) and isinstance(c.func, ast.Attribute)):
            continue
        recv = c.func.value
        target = None
        if isinstance(recv, ast.Call) and isinstance(recv.func, ast.Name) and recv.func.id == 'super':
            mro = [k for k in ix.mro(cls) if isinstance(k, ClassInfo)]
            if f.owner in mro:
                for k in mro[mro.index(f.owner) + 1:]:
                    if c.func.attr in k.methods:
                        target = k.methods[c.func.attr]
                        break
        elif isinstance(recv, ast.Name) and recv.id not in ('self', 'cls') and c.args and isinstance(c.args[0], ast.Name) and c.args[0].id == 'self':
            try:
                ent = ix.resolve_expr(f.module, recv)
            except Exception:
                ent = None
            if isinstance(ent, ClassInfo):
                target = ix.resolve_method(ent, c.func.attr)
        if isinstance(target, FuncInfo) and id(target) not in _seen:
            _seen.add(id(target))
            _merge(total, method_effects(target))
            for name in method_effects(target).self_calls:
                if name in cls_property_names(ix, cls):
                    continue
                _merge(total, transitive_effects(ix, cls, name, _seen))
    return total


def cls_property_names(ix, cls):
    out = set()
    from sa.index import ClassInfo
    for c in ix.mro(cls):
        if isinstance(c, ClassInfo):
            out |= set(c.properties)
    return out


def _merge(a, b):
    for k, v in b.writes.items():
        a.writes.setdefault(k, []).extend(v)
    for k, v in b.mutations.items():
        a.mutations.setdefault(k, []).extend(v)
    for k, v in b.reads.items():
        a.reads.setdefault(k, []).extend(v)
    for k, v in b.self_calls.items():
        a.self_calls.setdefault(k, []).extend(v)
    a.aliases.update(b.aliases)
