"""Finite-world evaluation of small selector functions (a reader "by meaning").

Some functions of rtamt only *select*: the comparison-operator text -> enum member, (semantics, language) -> the pair of interpreter
classes, operator text -> node class.  Their argument ranges over a finite set the grammar or an enumeration fixes, so the function is
decided by evaluating its source on every member of that set -- whatever the selection is written as (if/elif chain, guard clauses,
a dict or tuple table at module or class level with `[k]` / `.get(k, d)`, a loop over a literal table, `getattr(Enum, name)`).

Nothing of rtamt is executed: the evaluator walks the `ast` of the function with *terms* as values

    Const(v)            a Python constant
    Ref('A.b.c')        a name / attribute chain that is not bound in the function or by a module / class level assignment
    CallT(f, args, kw)  a call that is not one of the few table operations understood below
    TupleV / DictV      displays (tuples and lists alike; dict keys are terms)

and raises `Unknown` as soon as a test cannot be decided or a statement kind is not understood: the caller turns that into ANALYSIS-ERROR,
never into a verdict."""
import ast


class Unknown(Exception):
    pass


class Raised(Exception):
    """the evaluated function raises on this input"""

    def __init__(self, what, lineno):
        Exception.__init__(self, what)
        self.what = what
        self.lineno = lineno


class Const(object):
    def __init__(self, v):
        self.v = v

    def key(self):
        return ('c', type(self.v).__name__, self.v)

    def __repr__(self):
        return repr(self.v)


class Ref(object):
    def __init__(self, dotted):
        self.dotted = dotted

    def key(self):
        return ('r', self.dotted)

    def __repr__(self):
        return self.dotted


class CallT(object):
    def __init__(self, func, args, kw, lineno=0):
        self.func = func
        self.args = args
        self.kw = kw
        self.lineno = lineno

    def key(self):
        return ('call', self.func.key(), tuple(a.key() for a in self.args), tuple(sorted((k, v.key()) for k, v in self.kw.items())))

    def __repr__(self):
        return '%r(%s)' % (self.func, ', '.join([repr(a) for a in self.args] + ['%s=%r' % kv for kv in sorted(self.kw.items())]))


class TupleV(object):
    def __init__(self, elts):
        self.elts = list(elts)

    def key(self):
        return ('t', tuple(e.key() for e in self.elts))

    def __repr__(self):
        return '(%s)' % ', '.join(repr(e) for e in self.elts)


class DictV(object):
    def __init__(self, pairs):
        self.pairs = list(pairs)

    def key(self):
        return ('d', tuple((k.key(), v.key()) for k, v in self.pairs))

    def get(self, k):
        for kk, v in self.pairs:
            if kk.key() == k.key():
                return v
        return None

    def __repr__(self):
        return '{%s}' % ', '.join('%r: %r' % kv for kv in self.pairs)


def _ground(v):
    """a term that denotes one definite object different from every other ground term with another key: constants, enumeration members and
    classes (dotted references), displays of ground terms"""
    if isinstance(v, (Const, Ref)):
        return True
    if isinstance(v, TupleV):
        return all(_ground(e) for e in v.elts)
    return False


class _Return(Exception):
    def __init__(self, v):
        self.v = v


class Evaluator(object):
    """evaluates one function definition.  module_body / class_body: statement lists searched for `NAME = <display>` bindings (tables);
    oracle(term) may give the value of a term the world fixes (e.g. `ctx.addsubOp().getText()`); self_name: the receiver parameter"""

    def __init__(self, fn, module_body=(), class_bodies=(), oracle=None, max_steps=4000):
        self.fn = fn
        self.module_body = module_body
        self.class_bodies = class_bodies
        self.oracle = oracle
        self.steps = 0
        self.max_steps = max_steps
        a = fn.args
        self.params = [x.arg for x in a.posonlyargs + a.args]
        self.self_name = self.params[0] if class_bodies and self.params else None
        self._tables = {}

    # ------------------------------------------------------------------ bindings outside the function
    def _level_binding(self, bodies, name):
        found = None
        for body in bodies:
            for st in body:
                if isinstance(st, ast.Assign) and len(st.targets) == 1 and isinstance(st.targets[0], ast.Name) and st.targets[0].id == name:
                    found = st.value
                elif isinstance(st, ast.AnnAssign) and isinstance(st.target, ast.Name) and st.target.id == name and st.value is not None:
                    found = st.value
            if found is not None:
                return found
        return None

    def _table(self, kind, name):
        k = (kind, name)
        if k not in self._tables:
            e = self._level_binding(self.class_bodies if kind == 'class' else [self.module_body], name)
            v = None
            if e is not None and isinstance(e, (ast.Dict, ast.Tuple, ast.List, ast.Constant)):
                try:
                    v = self.expr(e, {})
                except Unknown:
                    v = None
            self._tables[k] = v
        return self._tables[k]

    # ------------------------------------------------------------------ expressions
    def expr(self, e, env):
        v = self._expr(e, env)
        if self.oracle is not None and not isinstance(v, Const):
            o = self.oracle(v)
            if o is not None:
                return o
        return v

    def _expr(self, e, env):
        if isinstance(e, ast.Constant):
            return Const(e.value)
        if isinstance(e, ast.Name):
            if e.id in env:
                return env[e.id]
            t = self._table('module', e.id)
            return t if t is not None else Ref(e.id)
        if isinstance(e, ast.Attribute):
            if isinstance(e.value, ast.Name) and (e.value.id + '.' + e.attr) in env:
                return env[e.value.id + '.' + e.attr]
            base = self.expr(e.value, env)
            if isinstance(base, Ref):
                if self.self_name is not None and base.dotted in (self.self_name, 'cls', 'type(%s)' % self.self_name, self.self_name + '.__class__'):
                    t = self._table('class', e.attr)
                    if t is not None:
                        return t
                return Ref(base.dotted + '.' + e.attr)
            return CallT(Ref('getattr'), [base, Const(e.attr)], {})
        if isinstance(e, (ast.Tuple, ast.List)):
            if any(isinstance(x, ast.Starred) for x in e.elts):
                raise Unknown('starred display')
            return TupleV([self.expr(x, env) for x in e.elts])
        if isinstance(e, ast.Dict):
            if any(k is None for k in e.keys):
                raise Unknown('dict unpacking')
            return DictV([(self.expr(k, env), self.expr(v, env)) for k, v in zip(e.keys, e.values)])
        if isinstance(e, ast.IfExp):
            return self.expr(e.body if self.truth(e.test, env) else e.orelse, env)
        if isinstance(e, ast.BoolOp) or isinstance(e, ast.Compare) or (isinstance(e, ast.UnaryOp) and isinstance(e.op, ast.Not)):
            return Const(self.truth(e, env))
        if isinstance(e, ast.Subscript) and not isinstance(e.slice, ast.Slice):
            base = self.expr(e.value, env)
            k = self.expr(e.slice, env)
            if isinstance(base, DictV):
                if not (_ground(k) and all(_ground(kk) for kk, _ in base.pairs)):
                    raise Unknown('table key %r' % k)
                v = base.get(k)
                if v is None:
                    raise Raised('KeyError(%r)' % k, e.lineno)
                return v
            if isinstance(base, TupleV) and isinstance(k, Const) and isinstance(k.v, int):
                try:
                    return base.elts[k.v]
                except IndexError:
                    raise Raised('IndexError', e.lineno)
            if isinstance(base, Const) and isinstance(base.v, str) and isinstance(k, Const) and isinstance(k.v, int):
                try:
                    return Const(base.v[k.v])
                except IndexError:
                    raise Raised('IndexError', e.lineno)
            return CallT(Ref('getitem'), [base, k], {})
        if isinstance(e, ast.Call):
            return self.call(e, env)
        if isinstance(e, ast.UnaryOp) and isinstance(e.op, ast.USub):
            v = self.expr(e.operand, env)
            if isinstance(v, Const) and isinstance(v.v, (int, float)):
                return Const(-v.v)
            return CallT(Ref('neg'), [v], {})
        if isinstance(e, ast.BinOp):
            l, r = self.expr(e.left, env), self.expr(e.right, env)
            if isinstance(e.op, ast.Add) and isinstance(l, Const) and isinstance(r, Const) and type(l.v) is type(r.v) and isinstance(l.v, (str, int)):
                return Const(l.v + r.v)
            if isinstance(e.op, ast.Add) and isinstance(l, TupleV) and isinstance(r, TupleV):
                return TupleV(l.elts + r.elts)
            if isinstance(e.op, ast.Mod) and isinstance(l, Const) and isinstance(l.v, str) and isinstance(r, Const) and l.v.count('%') == 1 and '%s' in l.v:
                return Const(l.v % (r.v,))
            return CallT(Ref(type(e.op).__name__), [l, r], {})
        if isinstance(e, ast.JoinedStr):
            return CallT(Ref('format'), [Const(ast.unparse(e))], {})
        if isinstance(e, ast.Lambda):
            return CallT(Ref('lambda'), [Const(ast.unparse(e))], {})
        raise Unknown('expression %s' % ast.unparse(e)[:60])

    def call(self, e, env):
        if any(isinstance(a, ast.Starred) for a in e.args) or any(k.arg is None for k in e.keywords):
            raise Unknown('star arguments')
        args = [self.expr(a, env) for a in e.args]
        kw = {k.arg: self.expr(k.value, env) for k in e.keywords}
        f = e.func
        # table.get(k[, d])
        if isinstance(f, ast.Attribute) and f.attr in ('get', 'items', 'keys', 'values') and not kw:
            base = self.expr(f.value, env)
            if isinstance(base, DictV):
                if f.attr == 'get' and len(args) in (1, 2):
                    if not (_ground(args[0]) and all(_ground(kk) for kk, _ in base.pairs)):
                        raise Unknown('table key %r' % args[0])
                    v = base.get(args[0])
                    return v if v is not None else (args[1] if len(args) == 2 else Const(None))
                if f.attr == 'items' and not args:
                    return TupleV([TupleV([k, v]) for k, v in base.pairs])
                if f.attr == 'keys' and not args:
                    return TupleV([k for k, v in base.pairs])
                if f.attr == 'values' and not args:
                    return TupleV([v for k, v in base.pairs])
        fv = self.expr(f, env)
        if isinstance(fv, Ref) and not kw:
            if fv.dotted == 'getattr' and len(args) in (2, 3) and isinstance(args[1], Const) and isinstance(args[1].v, str):
                if isinstance(args[0], Ref):
                    return Ref(args[0].dotted + '.' + args[1].v)
                return CallT(Ref('getattr'), args[:2], {})
            if fv.dotted in ('tuple', 'list') and len(args) == 1 and isinstance(args[0], TupleV):
                return args[0]
            if fv.dotted == 'dict' and len(args) == 1 and isinstance(args[0], DictV):
                return args[0]
            if fv.dotted == 'dict' and len(args) == 1 and isinstance(args[0], TupleV) and all(isinstance(p, TupleV) and len(p.elts) == 2 for p in args[0].elts):
                return DictV([(p.elts[0], p.elts[1]) for p in args[0].elts])
            if fv.dotted == 'len' and len(args) == 1 and isinstance(args[0], (TupleV,)):
                return Const(len(args[0].elts))
            if fv.dotted == 'str' and len(args) == 1 and isinstance(args[0], Const) and isinstance(args[0].v, str):
                return args[0]
            if fv.dotted in ('str', 'repr') and len(args) == 1 and isinstance(args[0], Const) and isinstance(args[0].v, (int, float)) and not isinstance(args[0].v, bool):
                return Const(str(args[0].v) if fv.dotted == 'str' else repr(args[0].v))
            if fv.dotted in ('math.isinf', 'math.isnan', 'math.isfinite', 'isinf', 'isnan', 'isfinite') and len(args) == 1 and isinstance(args[0], Const) \
                    and isinstance(args[0].v, float):
                import math as _m
                return Const(getattr(_m, fv.dotted.split('.')[-1])(args[0].v))
        if isinstance(f, ast.Attribute) and f.attr in ('strip', 'lower', 'isalpha', 'isidentifier', 'isdigit', 'lstrip') and not args and not kw:
            base = self.expr(f.value, env)
            if isinstance(base, Const) and isinstance(base.v, str):
                return Const(getattr(base.v, f.attr)())
        if isinstance(f, ast.Attribute) and f.attr in ('startswith', 'endswith') and len(args) == 1 and not kw:
            base = self.expr(f.value, env)
            if isinstance(base, Const) and isinstance(base.v, str) and isinstance(args[0], Const) and isinstance(args[0].v, str):
                return Const(getattr(base.v, f.attr)(args[0].v))
        if isinstance(f, ast.Attribute) and f.attr == 'format' and not kw:
            base = self.expr(f.value, env)
            if isinstance(base, Const) and isinstance(base.v, str) and all(isinstance(a_, Const) for a_ in args) and '{:' not in base.v and '{!' not in base.v:
                try:
                    return Const(base.v.format(*[a_.v for a_ in args]))
                except (IndexError, KeyError, ValueError):
                    pass
        return CallT(fv, args, kw, e.lineno)

    # ------------------------------------------------------------------ conditions
    def same(self, a, b):
        """True / False when decided, Unknown otherwise"""
        if a.key() == b.key():
            return True
        if _ground(a) and _ground(b):
            return False
        raise Unknown('comparison of %r with %r' % (a, b))

    def truth(self, e, env):
        if isinstance(e, ast.BoolOp):
            if isinstance(e.op, ast.And):
                for v in e.values:
                    if not self.truth(v, env):
                        return False
                return True
            for v in e.values:
                if self.truth(v, env):
                    return True
            return False
        if isinstance(e, ast.UnaryOp) and isinstance(e.op, ast.Not):
            return not self.truth(e.operand, env)
        if isinstance(e, ast.Compare):
            left = self.expr(e.left, env)
            for op, c in zip(e.ops, e.comparators):
                right = self.expr(c, env)
                if isinstance(op, (ast.Eq, ast.Is)):
                    r = self.same(left, right)
                elif isinstance(op, (ast.NotEq, ast.IsNot)):
                    r = not self.same(left, right)
                elif isinstance(op, (ast.In, ast.NotIn)):
                    if isinstance(right, TupleV):
                        r = any(self.same(left, x) for x in right.elts)
                    elif isinstance(right, DictV):
                        r = any(self.same(left, k) for k, _ in right.pairs)
                    elif isinstance(right, Const) and isinstance(right.v, str) and isinstance(left, Const) and isinstance(left.v, str):
                        r = left.v in right.v
                    else:
                        raise Unknown('membership in %r' % right)
                    if isinstance(op, ast.NotIn):
                        r = not r
                elif isinstance(left, Const) and isinstance(right, Const) and isinstance(left.v, (int, float)) and isinstance(right.v, (int, float)):
                    r = {ast.Lt: left.v < right.v, ast.LtE: left.v <= right.v, ast.Gt: left.v > right.v, ast.GtE: left.v >= right.v}[type(op)]
                else:
                    raise Unknown('ordering comparison %s' % ast.unparse(e)[:60])
                if not r:
                    return False
                left = right
            return True
        v = self.expr(e, env)
        if isinstance(v, Const):
            return bool(v.v)
        if isinstance(v, TupleV):
            return bool(v.elts)
        if isinstance(v, DictV):
            return bool(v.pairs)
        if isinstance(v, Ref):
            return True            # a class / enumeration member
        raise Unknown('truth value of %r' % v)

    # ------------------------------------------------------------------ statements
    def bind(self, target, v, env):
        if isinstance(target, ast.Name):
            env[target.id] = v
        elif isinstance(target, (ast.Tuple, ast.List)):
            if not isinstance(v, TupleV) or len(v.elts) != len(target.elts):
                raise Unknown('unpacking of %r' % v)
            for t, x in zip(target.elts, v.elts):
                self.bind(t, x, env)
        elif isinstance(target, ast.Attribute) and isinstance(target.value, ast.Name):
            env[target.value.id + '.' + target.attr] = v          # self.x = v: later reads of self.x see v
            env.setdefault('__stores__', TupleV([])).elts.append(TupleV([Const(ast.unparse(target)), v]))
        elif isinstance(target, (ast.Attribute, ast.Subscript)):
            env.setdefault('__stores__', TupleV([])).elts.append(TupleV([Const(ast.unparse(target)), v]))
        else:
            raise Unknown('assignment target %s' % ast.unparse(target))

    def block(self, stmts, env):
        for st in stmts:
            self.steps += 1
            if self.steps > self.max_steps:
                raise Unknown('evaluation does not finish')
            if isinstance(st, ast.Expr):
                if isinstance(st.value, ast.Constant):
                    continue
                v = self.expr(st.value, env)
                env.setdefault('__effects__', TupleV([])).elts.append(v)
            elif isinstance(st, ast.Assign):
                v = self.expr(st.value, env)
                for t in st.targets:
                    self.bind(t, v, env)
            elif isinstance(st, ast.AnnAssign) and st.value is not None:
                self.bind(st.target, self.expr(st.value, env), env)
            elif isinstance(st, ast.If):
                self.block(st.body if self.truth(st.test, env) else st.orelse, env)
            elif isinstance(st, ast.For):
                it = self.expr(st.iter, env)
                if isinstance(it, DictV):
                    it = TupleV([k for k, _ in it.pairs])
                if not isinstance(it, TupleV):
                    raise Unknown('loop over %r' % it)
                broke = False
                for x in it.elts:
                    self.bind(st.target, x, env)
                    try:
                        self.block(st.body, env)
                    except _Break:
                        broke = True
                        break
                    except _Continue:
                        continue
                if not broke:
                    self.block(st.orelse, env)
            elif isinstance(st, ast.Return):
                raise _Return(self.expr(st.value, env) if st.value is not None else Const(None))
            elif isinstance(st, ast.Raise):
                raise Raised(ast.unparse(st.exc)[:80] if st.exc is not None else 're-raise', st.lineno)
            elif isinstance(st, ast.Pass):
                continue
            elif isinstance(st, ast.Break):
                raise _Break()
            elif isinstance(st, ast.Continue):
                raise _Continue()
            elif isinstance(st, (ast.Import, ast.ImportFrom)):
                continue
            else:
                raise Unknown('statement %s' % ast.unparse(st).split('\n')[0][:60])

    def run(self, bindings):
        """-> (value returned, environment at the return).  Raised if the function raises, Unknown if it cannot be followed"""
        env = {}
        a = self.fn.args
        pos = a.posonlyargs + a.args
        for p, d in zip(pos[len(pos) - len(a.defaults):], a.defaults):
            try:
                env[p.arg] = self.expr(d, {})
            except Unknown:
                pass
        for p in pos:
            if p.arg in bindings:
                env[p.arg] = bindings[p.arg]
            elif p.arg not in env:
                env[p.arg] = Ref(p.arg)
        self.steps = 0
        try:
            self.block(self.fn.body, env)
        except _Return as r:
            return r.v, env
        return Const(None), env


class _Break(Exception):
    pass


class _Continue(Exception):
    pass
