"""Static analysis of nickovic/rtamt: repository index, rules, per-property checks.

Nothing in this package imports or executes rtamt.  The only third-party code used is the
ANTLR runtime's ATN deserialiser (to read the generated lexer's automaton).
"""
