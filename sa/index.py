"""E1 -- repository index.

Parses every ``rtamt/**/*.py`` of the working tree with ``ast`` and provides

* module table, import resolution (absolute imports, ``import m as a``, ``from m import *``)
* class table with resolved bases, C3 linearisation computed from the source
* factory instantiation: a class statement nested in a function whose bases are parameters of that
  function is instantiated once per call site with a resolvable argument
* ``resolve_method(cls, name)`` walking the MRO (last definition in a class body wins, as in Python)

Nothing is imported or executed.
"""
import ast
import os
import hashlib

REPO = os.environ.get('SA_REPO', '/repo')
PKG = 'rtamt'

EXCLUDE_DIRS = ('cpplib', '__pycache__')


class AnalysisError(Exception):
    """The analyser cannot do its job (anchor vanished, unknown idiom at a decided site...)."""


def before(a, b):
    """a stands before b in the text of the (lowered) program: by pre-order rank when both nodes carry one, by line otherwise"""
    oa, ob = getattr(a, '_ord', None), getattr(b, '_ord', None)
    if oa is not None and ob is not None:
        return oa < ob
    return a.lineno < b.lineno


class External(object):
    """A name that resolves outside the analysed package (stdlib, antlr4...)."""

    def __init__(self, dotted):
        self.dotted = dotted

    def __repr__(self):
        return 'External(%s)' % self.dotted

    def __eq__(self, other):
        return isinstance(other, External) and other.dotted == self.dotted

    def __hash__(self):
        return hash(('ext', self.dotted))


class ModuleRef(object):
    def __init__(self, name):
        self.name = name

    def __repr__(self):
        return 'ModuleRef(%s)' % self.name


class FuncInfo(object):
    def __init__(self, module, node, owner=None):
        self.module = module
        self.node = node
        self.owner = owner  # ClassInfo for methods
        self.name = node.name

    @property
    def qual(self):
        if self.owner is not None:
            return '%s.%s' % (self.owner.name, self.name)
        return self.name

    @property
    def where(self):
        return '%s:%d' % (self.module.rel, self.node.lineno)

    def __repr__(self):
        return 'Func(%s:%s)' % (self.module.name, self.qual)


class ClassInfo(object):
    def __init__(self, module, node, name=None, base_exprs=None, env=None, factory=None):
        self.module = module
        self.node = node
        self.name = name or node.name
        self.base_exprs = list(node.bases) if base_exprs is None else base_exprs
        self.env = env or {}  # parameter bindings for factory-made classes
        self.factory = factory  # (factory FuncInfo, argument ClassInfo tuple) for synthesised classes
        self.bases = None  # resolved lazily by Index
        self.methods = {}
        self.duplicate_methods = []
        self.class_attrs = {}
        for st in node.body:
            if isinstance(st, (ast.FunctionDef,)):
                if st.name in self.methods:
                    self.duplicate_methods.append(st.name)
                self.methods[st.name] = FuncInfo(module, st, self)
            elif isinstance(st, ast.Assign):
                for t in st.targets:
                    if isinstance(t, ast.Name):
                        self.class_attrs[t.id] = st.value
        # properties: name -> {'get': FuncInfo, 'set': FuncInfo}
        self.properties = {}
        for st in node.body:
            if isinstance(st, ast.FunctionDef):
                for d in st.decorator_list:
                    if isinstance(d, ast.Name) and d.id == 'property':
                        self.properties.setdefault(st.name, {})['get'] = FuncInfo(module, st, self)
                    elif isinstance(d, ast.Attribute) and d.attr == 'setter' and isinstance(d.value, ast.Name):
                        self.properties.setdefault(d.value.id, {})['set'] = FuncInfo(module, st, self)

    @property
    def qual(self):
        return '%s:%s' % (self.module.name, self.name)

    @property
    def where(self):
        return '%s:%d' % (self.module.rel, self.node.lineno)

    def __repr__(self):
        return 'Class(%s)' % self.qual


class Module(object):
    def __init__(self, name, path, rel, src, tree=None):
        self.name = name
        self.path = path
        self.rel = rel
        self.src = src
        self.tree = tree if tree is not None else ast.parse(src, filename=path)
        self.imports = {}  # local name -> ('mod', dotted) | ('sym', dotted module, symbol)
        self.star = []  # dotted modules imported with *
        self.classes = {}
        self.functions = {}
        self.assigns = {}  # module-level name -> value expr (last assignment)
        self._scan()

    def _scan(self):
        for st in self.tree.body:
            self._scan_stmt(st)

    def _scan_stmt(self, st):
        if isinstance(st, ast.Import):
            for a in st.names:
                if a.asname:
                    self.imports[a.asname] = ('mod', a.name)
                else:
                    # "import a.b.c" binds "a"; attribute chains are resolved by dotted lookup
                    self.imports[a.name.split('.')[0]] = ('pkg', a.name.split('.')[0])
        elif isinstance(st, ast.ImportFrom):
            modname = st.module
            if st.level:
                pkg = self.name.split('.')
                if not self.path.endswith('__init__.py'):
                    pkg = pkg[:-1]
                pkg = pkg[:len(pkg) - (st.level - 1)]
                modname = '.'.join(pkg + ([st.module] if st.module else []))
            for a in st.names:
                if a.name == '*':
                    self.star.append(modname)
                else:
                    self.imports[a.asname or a.name] = ('sym', modname, a.name)
        elif isinstance(st, ast.ClassDef):
            self.classes[st.name] = ClassInfo(self, st)
        elif isinstance(st, ast.FunctionDef):
            self.functions[st.name] = FuncInfo(self, st)
        elif isinstance(st, ast.Assign):
            for t in st.targets:
                if isinstance(t, ast.Name):
                    self.assigns[t.id] = st.value
        elif isinstance(st, (ast.If, ast.Try)):
            for sub in ast.iter_child_nodes(st):
                if isinstance(sub, ast.stmt):
                    self._scan_stmt(sub)
            for h in getattr(st, 'handlers', []):
                for sub in h.body:
                    self._scan_stmt(sub)


class Index(object):
    def __init__(self, repo=None):
        self.repo = repo or REPO
        self.modules = {}
        self.factory_classes = {}  # (factory qual, arg quals) -> ClassInfo
        self._mro_cache = {}
        self.parse_errors = []
        self._load()

    # ------------------------------------------------------------------ loading
    def _load(self):
        root = os.path.join(self.repo, PKG)
        if not os.path.isdir(root):
            raise AnalysisError('package directory %s not found' % root)
        parsed = {}
        for d, dirs, files in os.walk(root):
            dirs[:] = sorted(x for x in dirs if x not in EXCLUDE_DIRS)
            for f in sorted(files):
                if not f.endswith('.py'):
                    continue
                path = os.path.join(d, f)
                rel = os.path.relpath(path, self.repo)
                parts = rel[:-3].split(os.sep)
                if parts[-1] == '__init__':
                    parts = parts[:-1]
                name = '.'.join(parts)
                with open(path, 'rb') as fh:
                    raw = fh.read()
                try:
                    src = raw.decode('utf-8')
                    parsed[name] = (path, rel, src, ast.parse(src, filename=path))
                except (SyntaxError, UnicodeDecodeError) as e:
                    self.parse_errors.append((rel, str(e)))
        if self.parse_errors:
            raise AnalysisError('cannot parse: %r' % (self.parse_errors,))
        # E0: helpers the pinned tree does not have are inlined, dispatch tables become if-chains (sa/lower.py) -- the identity on the pinned tree
        if os.environ.get('SA_NO_LOWERING') != '1':
            from sa import lower
            self.lowering = lower.lower_package({n: v[3] for n, v in parsed.items()})
        else:
            self.lowering = None
        # textual order of the program the rules see: every node gets its pre-order rank (`_ord`).  Line numbers cannot say which of two
        # statements comes first once a helper has been inlined (every inlined statement carries the line of the call): see `before()`
        for name, (path, rel, src, tree) in parsed.items():
            k = 0
            stack = [tree]
            while stack:
                n = stack.pop()
                n._ord = k
                k += 1
                stack.extend(reversed(list(ast.iter_child_nodes(n))))
        for name, (path, rel, src, tree) in parsed.items():
            self.modules[name] = Module(name, path, rel, src, tree)

    def unimportable(self, mod):
        """name of a package-internal module that `mod` imports at top level and that does not exist (importing `mod` raises
        ImportError, so nothing in it can run), else None"""
        for st in mod.tree.body:
            names = []
            if isinstance(st, ast.Import):
                names = [a.name for a in st.names]
            elif isinstance(st, ast.ImportFrom) and st.module and not st.level:
                names = [st.module]
            for nm in names:
                if nm.split('.')[0] == PKG and nm not in self.modules:
                    return nm
        return None

    def digest(self):
        h = hashlib.sha256()
        for n in sorted(self.modules):
            h.update(n.encode())
            h.update(self.modules[n].src.encode())
        return h.hexdigest()[:16]

    def module(self, name):
        m = self.modules.get(name)
        if m is None:
            raise AnalysisError('anchor module %s vanished' % name)
        return m

    def module_by_rel(self, rel):
        for m in self.modules.values():
            if m.rel == rel:
                return m
        raise AnalysisError('anchor file %s vanished' % rel)

    # ------------------------------------------------------------------ name resolution
    def lookup(self, module, name, _seen=None):
        """Resolve a bare name in a module's global scope.

        Returns ClassInfo | FuncInfo | ModuleRef | External | ('value', module, expr) | None."""
        _seen = _seen or set()
        key = (module.name, name)
        if key in _seen:
            return None
        _seen.add(key)
        if name in module.classes:
            return module.classes[name]
        if name in module.functions:
            return module.functions[name]
        if name in module.assigns:
            return ('value', module, module.assigns[name])
        if name in module.imports:
            imp = module.imports[name]
            if imp[0] in ('mod', 'pkg'):
                if imp[1] in self.modules:
                    return ModuleRef(imp[1])
                if imp[1].split('.')[0] == PKG:
                    return ModuleRef(imp[1])
                return External(imp[1])
            _, modname, sym = imp
            if modname in self.modules:
                target = self.modules[modname]
                r = self.lookup(target, sym, _seen)
                if r is not None:
                    return r
                sub = modname + '.' + sym
                if sub in self.modules:
                    return ModuleRef(sub)
                return None
            if modname.split('.')[0] == PKG:
                return None  # dangling internal import (reported by callers that care)
            return External(modname + '.' + sym)
        for modname in module.star:
            if modname in self.modules:
                r = self.lookup(self.modules[modname], name, _seen)
                if r is not None:
                    return r
            elif modname.split('.')[0] != PKG:
                # an external star import may bind anything; treat unknown capitalised names as external
                pass
        return None

    def resolve_expr(self, module, expr, env=None):
        """Resolve a Name / dotted Attribute expression to an entity."""
        env = env or {}
        if isinstance(expr, ast.Name):
            if expr.id in env:
                return env[expr.id]
            r = self.lookup(module, expr.id)
            if r is None:
                import builtins
                if hasattr(builtins, expr.id):
                    return External('builtins.' + expr.id)
                for modname in module.star:
                    if modname.split('.')[0] != PKG:
                        return External(modname + '.' + expr.id)
            return r
        if isinstance(expr, ast.Attribute):
            dotted = dotted_name(expr)
            if dotted:
                parts = dotted.split('.')
                # longest prefix that is a module
                for k in range(len(parts) - 1, 0, -1):
                    pref = '.'.join(parts[:k])
                    if pref in self.modules and parts[0] in module.imports:
                        cur = ModuleRef(pref)
                        for p in parts[k:]:
                            cur = self._member(cur, p)
                            if cur is None:
                                return None
                        return cur
            base = self.resolve_expr(module, expr.value, env)
            if base is None:
                return None
            return self._member(base, expr.attr)
        return None

    def _member(self, ent, attr):
        if isinstance(ent, ModuleRef):
            sub = ent.name + '.' + attr
            if ent.name in self.modules:
                r = self.lookup(self.modules[ent.name], attr)
                if r is not None:
                    return r
            if sub in self.modules:
                return ModuleRef(sub)
            return None
        if isinstance(ent, External):
            return External(ent.dotted + '.' + attr)
        if isinstance(ent, ClassInfo):
            m = self.resolve_method(ent, attr)
            if m is not None:
                return m
            for c in self.mro(ent):
                if isinstance(c, ClassInfo) and attr in c.class_attrs:
                    return ('value', c.module, c.class_attrs[attr])
            return None
        return None

    # ------------------------------------------------------------------ classes
    def bases(self, cls):
        if cls.bases is None:
            out = []
            for b in cls.base_exprs:
                r = self.resolve_expr(cls.module, b, cls.env)
                if r is None:
                    raise AnalysisError('cannot resolve base %s of %s' % (ast.unparse(b), cls.qual))
                if isinstance(r, tuple):
                    raise AnalysisError('base %s of %s is a value' % (ast.unparse(b), cls.qual))
                out.append(r)
            cls.bases = out
        return cls.bases

    def mro(self, cls):
        """C3 linearisation; External bases are kept as opaque leaves."""
        key = id(cls)
        if key in self._mro_cache:
            return self._mro_cache[key]
        if not isinstance(cls, ClassInfo):
            return [cls]
        bases = self.bases(cls)
        seqs = [list(self.mro(b)) for b in bases] + [list(bases)]
        res = [cls]
        while True:
            seqs = [s for s in seqs if s]
            if not seqs:
                break
            for s in seqs:
                cand = s[0]
                if not any(_in_tail(cand, t) for t in seqs):
                    break
            else:
                raise AnalysisError('inconsistent MRO for %s' % cls.qual)
            res.append(cand)
            for s in seqs:
                if s and _same(s[0], cand):
                    del s[0]
        self._mro_cache[key] = res
        return res

    def resolve_method(self, cls, name):
        for c in self.mro(cls):
            if isinstance(c, ClassInfo) and name in c.methods:
                return c.methods[name]
        return None

    def has_external_base(self, cls):
        return [c for c in self.mro(cls) if isinstance(c, External) and c.dotted != 'builtins.object']

    def is_subclass(self, cls, other):
        return any(_same(c, other) for c in self.mro(cls))

    def all_classes(self):
        for m in self.modules.values():
            for c in m.classes.values():
                yield c

    def find_class(self, modname, clsname):
        m = self.module(modname)
        c = m.classes.get(clsname)
        if c is None:
            raise AnalysisError('anchor class %s.%s vanished' % (modname, clsname))
        return c

    def subclasses_of(self, base, under=None):
        out = []
        for c in self.all_classes():
            if under and not c.module.name.startswith(under):
                continue
            try:
                if c is not base and self.is_subclass(c, base):
                    out.append(c)
            except AnalysisError:
                continue
        return sorted(out, key=lambda c: c.qual)

    # ------------------------------------------------------------------ factories
    def factory_nested_class(self, func):
        """If func is ``def f(P...): class C(..., P): ...; return C`` return (ClassDef, param names)."""
        params = [a.arg for a in func.node.args.args]
        nested = [s for s in func.node.body if isinstance(s, ast.ClassDef)]
        rets = [s for s in ast.walk(func.node) if isinstance(s, ast.Return) and isinstance(s.value, ast.Name)]
        for cd in nested:
            if any(r.value.id == cd.name for r in rets):
                used = [b.id for b in cd.bases if isinstance(b, ast.Name) and b.id in params]
                if used:
                    return cd, params
        return None

    def instantiate_factory(self, func, arg_entities):
        fc = self.factory_nested_class(func)
        if fc is None:
            return None
        cd, params = fc
        key = (func.module.name, func.name, tuple(getattr(a, 'qual', repr(a)) for a in arg_entities))
        if key in self.factory_classes:
            return self.factory_classes[key]
        env = dict(zip(params, arg_entities))
        argname = '+'.join(getattr(a, 'name', '?') for a in arg_entities)
        ci = ClassInfo(func.module, cd, name='%s[%s]' % (cd.name, argname), env=env, factory=(func, tuple(arg_entities)))
        self.factory_classes[key] = ci
        return ci

    def factory_instances(self):
        """Instantiate every factory at every call site ``factory(ClassName)`` found in the package."""
        out = []
        for m in self.modules.values():
            for call in ast.walk(m.tree):
                if not isinstance(call, ast.Call):
                    continue
                f = self.resolve_expr(m, call.func) if isinstance(call.func, (ast.Name, ast.Attribute)) else None
                if isinstance(f, FuncInfo) and f.owner is None and self.factory_nested_class(f):
                    args = [self.resolve_expr(m, a) for a in call.args]
                    if args and all(isinstance(a, ClassInfo) for a in args):
                        ci = self.instantiate_factory(f, args)
                        if ci is not None:
                            out.append((m, call, ci))
        return out

    # ------------------------------------------------------------------ helpers
    def class_of_call(self, module, call, env=None):
        """Entity constructed/called by ``call`` (ClassInfo, FuncInfo, External) or None."""
        if isinstance(call.func, (ast.Name, ast.Attribute)):
            return self.resolve_expr(module, call.func, env)
        if isinstance(call.func, ast.Call):
            # factory(X)()  -> instance of the synthesised class
            inner = self.class_of_call(module, call.func, env)
            if isinstance(inner, FuncInfo) and self.factory_nested_class(inner):
                args = [self.resolve_expr(module, a, env) for a in call.func.args]
                if all(isinstance(a, ClassInfo) for a in args):
                    return self.instantiate_factory(inner, args)
        return None


def dotted_name(expr):
    parts = []
    while isinstance(expr, ast.Attribute):
        parts.append(expr.attr)
        expr = expr.value
    if isinstance(expr, ast.Name):
        parts.append(expr.id)
        return '.'.join(reversed(parts))
    return None


def _same(a, b):
    if a is b:
        return True
    if isinstance(a, External) and isinstance(b, External):
        return a.dotted == b.dotted
    return False


def _in_tail(cand, seq):
    return any(_same(cand, x) for x in seq[1:])


def unmangle(attr, clsname=None):
    """``_Cls__x`` / ``__x`` -> ``x`` when the private name backs a property of the same name."""
    if attr.startswith('__') and not attr.endswith('__'):
        return attr[2:]
    return attr
