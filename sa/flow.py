"""E3 -- statement-level CFG for one function, dominators, definite assignment.

Handles the statement kinds the repository uses: if/elif/else, for/while (with zero-iteration edge and
else), try/except/finally, with, return, raise, break, continue.  Nodes are integers; ``stmt[n]`` is the
ast node (a simple statement, or the ``If``/``While``/``For`` header whose test/iter is evaluated there).
"""
import ast


class CFG(object):
    def __init__(self, func):
        self.func = func
        self.succ = {}
        self.pred = {}
        self.stmt = {}
        self.kind = {}
        self._n = 0
        self.entry = self._new(None, 'entry')
        self.exit = self._new(None, 'exit')  # normal return
        self.raise_exit = self._new(None, 'raise')  # uncaught raise
        self.node_of = {}  # id(ast stmt) -> node
        self.loops = {}  # node of For/While header -> set of body nodes
        ends = self._block(func.body, [self.entry], [], None, [])
        for e in ends:
            self._edge(e, self.exit)

    def _new(self, st, kind):
        n = self._n
        self._n += 1
        self.succ[n] = []
        self.pred[n] = []
        self.stmt[n] = st
        self.kind[n] = kind
        if st is not None:
            self.node_of[id(st)] = n
        return n

    def _edge(self, a, b):
        if b not in self.succ[a]:
            self.succ[a].append(b)
            self.pred[b].append(a)

    def _block(self, stmts, preds, loopstack, handlers, finals):
        """Wire stmts after preds; returns the list of fall-through ends."""
        cur = list(preds)
        for st in stmts:
            cur = self._stmt(st, cur, loopstack, handlers, finals)
        return cur

    def _stmt(self, st, preds, loopstack, handlers, finals):
        if isinstance(st, ast.If):
            n = self._new(st, 'if')
            for p in preds:
                self._edge(p, n)
            self._exc(n, handlers)
            a = self._block(st.body, [n], loopstack, handlers, finals)
            b = self._block(st.orelse, [n], loopstack, handlers, finals) if st.orelse else [n]
            return a + b
        if isinstance(st, (ast.For, ast.While)):
            n = self._new(st, 'loop')
            for p in preds:
                self._edge(p, n)
            self._exc(n, handlers)
            brk = []
            before = self._n
            body_end = self._block(st.body, [n], loopstack + [(n, brk)], handlers, finals)
            self.loops[n] = set(range(before, self._n))
            for e in body_end:
                self._edge(e, n)
            out = self._block(st.orelse, [n], loopstack, handlers, finals) if st.orelse else [n]
            return out + brk
        if isinstance(st, ast.Try):
            hs = []
            for h in st.handlers:
                hn = self._new(h, 'except')
                hs.append(hn)
            inner_handlers = hs if hs else handlers
            body_end = self._block(st.body, preds, loopstack, inner_handlers if hs else handlers, finals)
            if st.orelse:
                body_end = self._block(st.orelse, body_end, loopstack, handlers, finals)
            ends = list(body_end)
            for h, hn in zip(st.handlers, hs):
                ends += self._block(h.body, [hn], loopstack, handlers, finals)
            if st.finalbody:
                ends = self._block(st.finalbody, ends, loopstack, handlers, finals)
            return ends
        if isinstance(st, ast.With):
            n = self._new(st, 'with')
            for p in preds:
                self._edge(p, n)
            self._exc(n, handlers)
            return self._block(st.body, [n], loopstack, handlers, finals)
        n = self._new(st, 'stmt')
        for p in preds:
            self._edge(p, n)
        if isinstance(st, ast.Return):
            self._edge(n, self.exit)
            return []
        if isinstance(st, ast.Raise):
            if handlers:
                for hn in handlers:
                    self._edge(n, hn)
            else:
                self._edge(n, self.raise_exit)
            return []
        if isinstance(st, ast.Break):
            loopstack[-1][1].append(n)
            return []
        if isinstance(st, ast.Continue):
            self._edge(n, loopstack[-1][0])
            return []
        self._exc(n, handlers)
        return [n]

    def _exc(self, n, handlers):
        # any statement inside a try body may transfer to the handlers
        if handlers:
            for hn in handlers:
                self._edge(n, hn)

    # ------------------------------------------------------------------------------------------
    def nodes(self):
        return range(self._n)

    def dominators(self):
        alln = set(self.nodes())
        reach = self.reachable()
        dom = {n: set(alln) for n in alln}
        dom[self.entry] = {self.entry}
        changed = True
        order = sorted(reach)
        while changed:
            changed = False
            for n in order:
                if n == self.entry:
                    continue
                ps = [p for p in self.pred[n] if p in reach]
                new = set(alln)
                for p in ps:
                    new &= dom[p]
                new = new | {n} if ps else {n}
                if new != dom[n]:
                    dom[n] = new
                    changed = True
        return dom

    def reachable(self):
        seen = set()
        stack = [self.entry]
        while stack:
            n = stack.pop()
            if n in seen:
                continue
            seen.add(n)
            stack.extend(self.succ[n])
        return seen

    def node(self, st):
        return self.node_of.get(id(st))


def header_exprs(st):
    """Expressions evaluated at the node of a compound statement header."""
    if isinstance(st, ast.If):
        return [st.test]
    if isinstance(st, ast.While):
        return [st.test]
    if isinstance(st, ast.For):
        return [st.iter]
    if isinstance(st, ast.With):
        return [i.context_expr for i in st.items]
    if isinstance(st, ast.ExceptHandler):
        return [st.type] if st.type is not None else []
    return None


def defs_uses(st):
    """(names bound, names read) by the CFG node of statement st (header only for compounds)."""
    defs, uses = set(), set()
    hx = header_exprs(st)
    if hx is not None:
        for e in hx:
            for n in ast.walk(e):
                if isinstance(n, ast.Name):
                    (uses if isinstance(n.ctx, ast.Load) else defs).add(n.id)
        if isinstance(st, ast.For):
            for n in ast.walk(st.target):
                if isinstance(n, ast.Name):
                    defs.add(n.id)
        if isinstance(st, ast.With):
            for i in st.items:
                if i.optional_vars is not None:
                    for n in ast.walk(i.optional_vars):
                        if isinstance(n, ast.Name):
                            defs.add(n.id)
        if isinstance(st, ast.ExceptHandler) and st.name:
            defs.add(st.name)
        return defs, uses
    if isinstance(st, (ast.FunctionDef, ast.ClassDef)):
        defs.add(st.name)
        return defs, uses
    if isinstance(st, (ast.Import, ast.ImportFrom)):
        for a in st.names:
            defs.add((a.asname or a.name).split('.')[0])
        return defs, uses
    for n in ast.walk(st):
        if isinstance(n, ast.Name):
            if isinstance(n.ctx, ast.Load):
                uses.add(n.id)
            else:
                defs.add(n.id)
    if isinstance(st, ast.AugAssign) and isinstance(st.target, ast.Name):
        uses.add(st.target.id)
    # comprehension variables are local to the comprehension
    for n in ast.walk(st):
        if isinstance(n, (ast.ListComp, ast.SetComp, ast.DictComp, ast.GeneratorExp)):
            for g in n.generators:
                for t in ast.walk(g.target):
                    if isinstance(t, ast.Name):
                        defs.discard(t.id)
                        uses.discard(t.id)
    return defs, uses


def possibly_unbound(func):
    """[(name, ast stmt)] -- reads of a local that is not assigned on every path from entry.

    Must-analysis (definitely assigned), the idiom mypy calls possibly-undefined."""
    cfg = CFG(func)
    params = {a.arg for a in func.args.args + func.args.kwonlyargs + func.args.posonlyargs}
    if func.args.vararg:
        params.add(func.args.vararg.arg)
    if func.args.kwarg:
        params.add(func.args.kwarg.arg)
    du = {}
    local = set()
    for n in cfg.nodes():
        st = cfg.stmt[n]
        du[n] = defs_uses(st) if st is not None else (set(), set())
        local |= du[n][0]
    glob = set()
    for st in ast.walk(func):
        if isinstance(st, (ast.Global, ast.Nonlocal)):
            glob |= set(st.names)
    local -= glob
    local -= params
    reach = cfg.reachable()
    top = set(local)
    inn = {n: set(top) for n in cfg.nodes()}
    inn[cfg.entry] = set()
    changed = True
    while changed:
        changed = False
        for n in sorted(reach):
            if n == cfg.entry:
                continue
            ps = [p for p in cfg.pred[n] if p in reach]
            new = set(top)
            for p in ps:
                # an exception edge out of p leaves before p's own bindings take effect
                if cfg.kind[n] == 'except':
                    new &= inn[p]
                else:
                    new &= (inn[p] | du[p][0])
            if new != inn[n]:
                inn[n] = new
                changed = True
    out = []
    for n in sorted(reach):
        st = cfg.stmt[n]
        if st is None:
            continue
        for u in du[n][1]:
            if u in local and u not in inn[n]:
                out.append((u, st))
    return out, cfg


def enclosing_loops(func):
    """map id(stmt) -> list of enclosing For/While statements (innermost last)."""
    out = {}

    def walk(stmts, stack):
        for st in stmts:
            out[id(st)] = list(stack)
            if isinstance(st, (ast.For, ast.While)):
                walk(st.body, stack + [st])
                walk(st.orelse, stack)
            elif isinstance(st, ast.If):
                walk(st.body, stack)
                walk(st.orelse, stack)
            elif isinstance(st, ast.Try):
                walk(st.body, stack)
                for h in st.handlers:
                    walk(h.body, stack)
                walk(st.orelse, stack)
                walk(st.finalbody, stack)
            elif isinstance(st, ast.With):
                walk(st.body, stack)
    walk(func.body, [])
    return out


def dominated_by(cfg, dom, target_stmt, pred):
    """Is the node of target_stmt dominated by some node whose statement satisfies pred?"""
    n = cfg.node(target_stmt)
    if n is None:
        return False
    for d in dom[n]:
        if d != n and cfg.stmt[d] is not None and pred(cfg.stmt[d], d):
            return True
    return False


def guard_raise_dominates(cfg, dom, target_stmt, test_pred):
    """target is dominated by an ``if T: raise ...`` whose test satisfies test_pred and whose body
    unconditionally raises (so reaching target implies not T)."""
    def p(st, d):
        if isinstance(st, ast.If) and test_pred(st.test) and st.body and isinstance(st.body[-1], ast.Raise):
            # target must not be inside the raising branch
            inner = {id(x) for b in st.body for x in ast.walk(b)}
            return id(target_stmt) not in inner
        return False
    return dominated_by(cfg, dom, target_stmt, p)
